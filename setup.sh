#!/bin/bash
# Offline setup: nothing to build ahead of time (every check rebuilds from /repo's working tree).
# Sanity-check the tools the checks rely on.
set -e
cd "$(dirname "$0")"
for t in cargo cbmc goto-cc goto-instrument z3 python3-vt rsync; do command -v $t >/dev/null || { echo "missing tool: $t"; exit 1; }; done
cargo kani --version >/dev/null
python3-vt -c "import z3" 
mkdir -p evidence logs replays
echo setup ok
