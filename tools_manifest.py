#!/usr/bin/env python3
"""Regenerates MANIFEST.json from the table below (keeps it valid at all times)."""
import json, os
HERE = os.path.dirname(os.path.abspath(__file__))
LEVEL_NOTE = ("Trusted base: rustc/Kani MIR->GOTO translation, CBMC 6.11 + CaDiCaL, z3; third-party crates (curve25519-dalek, "
              "salsa20, chacha20, sha2, subtle, zeroize, base64, serde) are replaced by contract/transcript stubs where listed in the "
              "evidence file; bounds (unwind, lengths, literal shapes) are listed per query in the evidence file.")
CLAIMED = {
 "C12": dict(text="Bounded model checking of the real crypto_kdf_derive_from_key / Kdf::derive_subkey: for every key, context and id "
                  "(fully symbolic) and each literal subkey length, the BLAKE2b call transcript (parameter block incl. digest length, salt, "
                  "personal, counter, final flag, key block, output truncation) equals the one libsodium's construction prescribes; rejected "
                  "lengths return Err without hashing. Right level: the property is a for-all over 2^384 inputs per length that sampling "
                  "cannot cover, while the code is a short straight-line driver around one compression call.",
             ref="DESIGN.md 5/C12",
             technique="Kani->CBMC bounded model checking with a BLAKE2b-compress transcript stub; counterexamples replayed natively against libsodium"),
 "C14": dict(text="Bounded model checking of the real src/protected.rs against a ghost kernel (POSIX mprotect/mlock/munlock/posix_memalign/free semantics, 4-byte page): one harness per typed operation sequence "
                  "(constructor x length x ops up to the stated depth, then drop) with symbolic contents; after every step the ghost page table must show exactly the type's rights on every data page, "
                  "lock state == type, PROT_NONE guard pages before the data and at the end of the block, contents unchanged; after the last drop nothing is locked, every block is freed with all pages RW. "
                  "A separate harness family checks the allocator's block geometry per layout size. Right level: the observable is the kernel's page table, which tests cannot enumerate over lengths/sequences, "
                  "while each sequence is a small loop-free program.",
             ref="DESIGN.md 5/C14, 3.3",
             technique="Kani->CBMC bounded model checking against a ghost-kernel model of libc; counterexamples replayed natively via /proc/self/smaps"),
 "C15": dict(text="Same harness family as C14 plus unprotected HeapBytes/HeapByteArray life cycles: the ghost free() scans the whole block (zero-filled at allocation) and any non-zero byte is a violation; "
                  "secrets are symbolic bytes; sequences include grow (realloc), shrink (truncate), clone+drop, locked resize-by-copy, write.",
             ref="DESIGN.md 5/C15",
             technique="Kani->CBMC bounded model checking with a ghost allocator whose free() asserts the block is zero; replay with an LD_PRELOAD free() interposer"),
 "C19": dict(text="Same harness family with the ghost mlock refusing from the k-th call on (k literal per instance, one per lock request of the program; contents symbolic): every Result-returning constructor/transition "
                  "must return Err (Kani proves no panic/abort reachable), Err only when the OS refused, and after dropping everything the C14/C15 end-state predicates hold.",
             ref="DESIGN.md 5/C19",
             technique="Kani->CBMC bounded model checking with a fault-injecting ghost mlock; replay with an LD_PRELOAD mlock interposer"),
 "C17": dict(text="Bounded model checking of every classic open that writes into a caller buffer (secretbox/box easy, detached, in-place, afternm, sealed; stream pull) with symbolic key, nonce/stream state, ciphertext, "
                  "presented tag and previous buffer contents, Poly1305 replaced by an ideal MAC whose symbolic output differs from the presented tag: the solver shows Err, every output byte is as it was or zero, the stream tag output "
                  "and the stream state are untouched. Literal message lengths. Right level: the leak depends on key-dependent keystream bytes, which a solver is free to choose, and on the order of two statements.",
             ref="DESIGN.md 5/C17", technique="Kani->CBMC bounded model checking with an ideal-MAC stub (A-type assertions, symbolic keys through the real stream ciphers); native replay"),
 "C04": dict(text="Bounded model checking of panic-/overflow-/OOB-freedom: Kani instruments every panic, unwrap/expect, arithmetic overflow and index in the compiled code; each opening/parsing/verifying entry point is run on a "
                  "buffer of literal length L (every boundary around the fixed overheads) with fully symbolic contents, keys and stream state, ideal MAC with arbitrary output (both verdicts), plus authentic stream messages with all 256 tag bytes.",
             ref="DESIGN.md 5/C04", technique="Kani->CBMC bounded model checking of Kani's built-in panic/overflow/bounds checks over symbolic untrusted buffers; native replay with catch_unwind"),
 "C11": dict(text="Bounded model checking with the OS generator replaced by an oracle (fresh symbolic array per call): for each randomised entry point the returned key/nonce/header/salt/seed equals this call's oracle output over its whole "
                  "length, public keys are the base-point image of the fresh secret, sealed boxes use the fresh ephemeral secret, password hashing feeds the fresh salt to Argon2 and to the encoder, and a second call draws a new array.",
             ref="DESIGN.md 5/C11", technique="Kani->CBMC bounded model checking with an RNG-oracle stub (randomness as a symbolic input); native replay by calling twice"),
 "C02": dict(text="Bounded model checking, in the ideal-MAC model, of every opening entry point with symbolic key, nonce/state, ciphertext, tag and MAC output: Ok <=> all 16 presented tag bytes equal the MAC; the MAC covers exactly the received "
                  "ciphertext (stream transcript in C03); key-derivation inputs for box / sealed box are exactly (pk, sk) / (epk, recipient pk); at literal (key, nonce) instances the one-time MAC key and the plaintext equal the harness's own XSalsa20 / HSalsa20.",
             ref="DESIGN.md 5/C02, 3.2", technique="Kani->CBMC bounded model checking with an ideal-MAC stub and a differential XSalsa20 reference at literal keys; native replay against libsodium"),
 "C03": dict(text="One inductive step from an arbitrary 44-byte stream state (all 2^32 counters) instead of histories: MAC transcript structure incl. libsodium's padding quirk, post-state function, rekey taken iff REKEY bit or counter wrap, verdict <=> tag == MAC, "
                  "for push and pull with symbolic tag byte; keystream-value facts, the real rekey and pull(push(m)) at literal (key, nonce) instances incl. counters 0xfffffffe/0xffffffff against the harness's own ChaCha20; init functions; object API forwarding.",
             ref="DESIGN.md 5/C03", technique="Kani->CBMC bounded model checking of one step from a symbolic state (A/B split: symbolic-key structural facts, literal-key keystream facts vs an RFC 8439 transcription); native replay against libsodium from the same state"),
 "C05": dict(text="Bounded model checking of what dryoc feeds curve25519-dalek for all 2^256 scalars x 2^256 point encodings: the ladder's integer is clamp(n) itself, point and result forwarded unmodified; base-point variant; key-exchange BLAKE2b transcript, rx/tx mirroring "
                  "and refusal of an all-zero shared secret. The ladder itself (symbolic field multiplication) is trusted base.",
             ref="DESIGN.md 5/C05", technique="Kani->CBMC bounded model checking with contract stubs for the dalek ladder and a BLAKE2b-compress transcript; native replay against an RFC 7748 big-integer ladder and libsodium on twist/low-order points"),
 "C06": dict(text="Bounded model checking of Ed25519 sign/verify plumbing with SHA-512 as ideal hash (logged transcript) and dalek operations as contract stubs: hash inputs (R, A, M, dom2 in pre-hashed mode), operand identities of S = k*a + r, determinism, combined layout; "
                  "verification rejects EVERY S >= L (256-bit symbolic S), undecodable / small-order R and A, and accepts exactly when the final point comparison holds.",
             ref="DESIGN.md 5/C06", technique="Kani->CBMC bounded model checking with ideal-hash and group-operation contract stubs; native replay by malleating an honest signature (S + L) with libsodium as oracle"),
 "C16": dict(text="Bounded model checking of the serde Visitors (mock Deserializer driving visit_bytes and visit_seq with/without size hint, k symbolic elements for each literal k in 0..=2N) for stack, heap and locked containers, and of to_bytes/from_bytes/parts round trips "
                  "and libsodium layouts of box, sealed box, secret box and signed message with symbolic bytes.",
             ref="DESIGN.md 5/C16", technique="Kani->CBMC bounded model checking with a mock serde Deserializer (both visitor paths) and the ghost libc for heap/locked containers; native replay through serde_json and bincode"),
 "C07": dict(text="Kernels decided for ALL inputs at full width by symbolic execution of rustc's MIR into z3 (BLAKE2b compress == RFC 7693 F; SipHash-2-4 per input length incl. >= 256 bytes; HSalsa20/HChaCha20 incl. custom constants; "
                  "LE increment; Poly1305 new / block step from any state in the limb invariant: no overflow, invariant, congruence mod 2^130-5 in witness form / finalize), cross-checked with a second z3 version; "
                  "drivers decided by Kani/CBMC with the kernels replaced by transcript stubs (BLAKE2b parameter block, block/counter/flag sequence, truncation; Poly1305 buffering; HMAC and SHA-512 padding at the compress512 level; verify functions). "
                  "function == spec follows by composition.",
             ref="DESIGN.md 5/C07, 2.2", technique="MIR->SMT symbolic execution (z3, bit-vector and integer domains, witness-form congruence) for kernels + Kani->CBMC bounded model checking with transcript stubs for drivers", engine="e2-mir-smt + e1-kani-cbmc"),
 "C08": dict(text="Bounded model checking: a message fed as consecutive update calls (literal split shapes covering every buffer-fill state x piece-size class for the 16- and 128-byte buffers, symbolic contents) produces exactly the kernel transcript of the "
                  "concatenated message, for BLAKE2b (classic + object), Poly1305 (classic + object), HMAC-SHA-512-256 and SHA-512.",
             ref="DESIGN.md 5/C08", technique="Kani->CBMC bounded model checking of kernel-call transcripts over enumerated split shapes; native replay incremental vs one-shot"),
 "C13": dict(text="Bounded model checking of the key-derivation constructions with SHA-512 / BLAKE2b / Argon2 as transcript stubs and curve operations as contract stubs: box seed (every listed seed length), kx seed, sign seed, from_secret_key, derive_keypair, "
                  "Ed25519->X25519 secret and public key conversion (Err exactly when the point does not decode).",
             ref="DESIGN.md 5/C13", technique="Kani->CBMC bounded model checking with hash-transcript and curve contract stubs; native replay against libsodium's constructions via ctypes"),
 "C01": dict(text="Bounded model checking at literal (key, nonce) instances with symbolic messages: secretbox == the NaCl construction byte for byte (keystream from the harness's own XSalsa20), combined / in-place / afternm / box / object-API forms produce identical bytes, "
                  "box key = HSalsa20(X25519, 0), round trips; sealed-box layout and key/nonce derivation inputs fully symbolic; sealed-box nonce = BLAKE2b-24(epk || rpk) via the compress transcript.",
             ref="DESIGN.md 5/C01", technique="Kani->CBMC bounded model checking with an ideal-MAC stub and a differential XSalsa20/HSalsa20 reference at literal keys; native replay against libsodium"),
 "C09": dict(text="Kernels for all inputs by MIR->z3: fill_block == RFC 9106 G with BlaMka (3 x 1 KiB symbolic), index_alpha == RFC 9106 3.4.1.2 for every 32-bit J1 over all position classes of small segments; drivers by Kani/CBMC: H' chain structure for literal output lengths, "
                  "crypto_pwhash range validation and untruncated cost forwarding for symbolic (opslimit, memlimit), PwHash::verify. The argon2_hash block schedule as a whole is NOT claimed (see evidence: outside_the_claim).",
             ref="DESIGN.md 5/C09", technique="MIR->SMT symbolic execution (z3 bit-vectors) for the Argon2 kernels + Kani->CBMC bounded model checking with BLAKE2b-compress / Argon2 stubs for the drivers", engine="e2-mir-smt + e1-kani-cbmc"),
 "C10": dict(text="PARTIAL claim. The text layer (format!/base64 encoder, parser) does not finish symbolic execution even on literal inputs and is not decided. With the parser replaced by a contract stub returning an arbitrary complete record: "
                  "needs-rehash is false exactly when both costs match (symbolic on both sides); string verification runs Argon2 with exactly the parsed costs / salt / algorithm, asks for the decoded hash's length and accepts exactly on equality over that whole length.",
             ref="DESIGN.md 5/C10, 9.6", technique="Kani->CBMC bounded model checking with parser and Argon2 contract stubs; native replay against libsodium's crypto_pwhash_str_verify"),
}
NA = {
 "C18": "Backends in question are assembly (sha2/asm), run-time-selected vendor intrinsics (dalek AVX2) and std::simd; none has a MIR/GOTO encoding Kani accepts and the two BLAKE2b compress variants are mutually exclusive cfg alternatives; see DESIGN.md section 6.",
 "C20": "Quantifies over programs and is decided by the Rust type checker (trait-impl presence, move semantics); no function is executed and there is no assertion over symbolic inputs for a solver to decide; see DESIGN.md section 6.",
}
PENDING = {}
def main():
    props = [json.loads(l)["id"] for l in open(os.path.join(HERE, "properties.jsonl"))]
    checks = []
    for pid in props:
        if pid in CLAIMED:
            c = CLAIMED[pid]
            checks.append({
                "property_id": pid,
                "quick_cmd": "./check %s --tier quick" % pid,
                "thorough_cmd": "./check %s --tier thorough" % pid,
                "evidence_file": "evidence/%s.json" % pid,
                "replay_cmd_template": "./check %s --replay {path}" % pid,
                "engine": c.get("engine", "e1-kani-cbmc"),
                "level_claimed": {"category": "model_checking", "text": c["text"], "design_ref": c["ref"]},
                "level_note": c.get("note", LEVEL_NOTE),
                "technique": c["technique"],
            })
    na = []
    for pid in props:
        if pid in CLAIMED:
            continue
        na.append({"property_id": pid, "reason": NA.get(pid) or PENDING.get(pid) or
                   "check not built yet in this session (planned, see DESIGN.md section 5); no claim is made"})
    m = {
        "version": 1,
        "setup_cmd": "./setup.sh",
        "hooks": {
            "guard": "--cfg dryoc_verif",
            "enable": "RUSTFLAGS='--cfg dryoc_verif --cfg chacha20_force_soft' DRYOC_VERIF_HARNESS=<generated harness file> DRYOC_VERIF_HARNESS_ARGON2=<generated file compiled inside src/argon2.rs, or harness/empty.rs> cargo kani -Z stubbing --only-codegen (on a scratch copy of /repo's working tree)",
            "baseline_off_cmd": "cd /repo && cargo nextest run --workspace --no-fail-fast --tool-config-file pb:/w/lib/nextest.toml --profile pb --test-threads 8 --offline || (cd /repo && cargo test --workspace --no-fail-fast --offline)",
            "source_commits": json.load(open(os.path.join(HERE, "hooks.json")))["source_commits"],
            "add_only": True,
        },
        "engines": [
            {"name": "e1-kani-cbmc", "path": "vlib/engine.py", "serves_properties": sorted(CLAIMED),
             "kind_free_text": "Kani 0.68 front end (MIR->GOTO, -Z stubbing) on a scratch copy of /repo; CBMC 6.11 driven directly with --unwinding-assertions; harnesses generated by props/*.py and compiled into dryoc through the cfg(dryoc_verif) hook"},
            {"name": "e2-mir-smt", "path": "mir2smt/", "serves_properties": [p for p in ("C07", "C01", "C03", "C09") if p in CLAIMED],
             "kind_free_text": "symbolic executor over the nightly -Zunpretty=mir dump of the scratch copy -> z3 (4.8.12 and 5.1) obligations"},
        ],
        "checks": checks,
        "not_applicable": na,
        "notes": "All checks rebuild from /repo's working tree on every run. Exit 0 = held within the stated bounds; exit 1 + VIOLATION line = solver counterexample that reproduced natively; exit 2 = inconclusive (timeout/OOM/encoder error/non-reproducing counterexample), never reported as success or as a violation. known_findings.json lists recorded findings and fixed: entries.",
    }
    json.dump(m, open(os.path.join(HERE, "MANIFEST.json"), "w"), indent=1)
if __name__ == "__main__":
    main()
