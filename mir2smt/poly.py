#!/usr/bin/env python3-vt
"""E2 obligations for dryoc's Poly1305 (src/poly1305/poly1305_soft.rs), executed from the MIR dump.

new()      (BV)  r = le128(key[0..16]) & 0x0ffffffc0ffffffc0ffffffc0fffffff split into 44/44/40-bit limbs, pad = key[16..32], h = 0
blocks()   (INT) one 16-byte block from ANY state in the limb invariant h0 < 2^44, h1 < 2^44 + 2^8, h2 < 2^42 and any clamped r:
                 no arithmetic overflow (every compiler-inserted check), invariant re-established, and
                 value(h') == (value(h) + m + 2^128 [unless partial]) * r  (mod 2^130 - 5)
                 discharged in witness form: div/mod eliminated, the difference divided EXACTLY by p over Z[vars] (sympy, an
                 untrusted hint) and z3 checks the ring identity  lhs - rhs == p * K.
finalize() (BV)  for every h in the invariant and every pad: tag == ((value(h) mod p) + pad) mod 2^128, little endian
"""
import sys
import time

import z3

from mirexec import Exec, Opt, Ref, Sc, Sl, Unsupported, conc

P = (1 << 130) - 5
HUB = [1 << 44, (1 << 44) + 256, 1 << 42]
RUB = [0xffc0fffffff + 1, 0xfffffc0ffff + 1, 0x00ffffffc0f + 1]


class PolyExec(Exec):
    """adds native models for the few library calls around the kernels (Default, Vec::is_empty, fill, zeroize)"""

    def apply(self, f, args):
        if f.endswith('as Default>::default') and 'Poly1305' in f:
            z = lambda n: [conc(0, 64) for _ in range(n)]
            return [z(3), z(3), z(2), []]
        if f.endswith('::is_empty') and isinstance(args[0], Ref) and isinstance(args[0].get(), list):
            return conc(int(len(args[0].get()) == 0), 1)
        if f.endswith('::fill'):
            sl, v = args
            for i in range(sl.ln):
                sl.lst[sl.off + i] = v
            return []
        if f.endswith('Zeroize>::zeroize') or f.endswith('::zeroize'):
            return []
        return super().apply(f, args)


def find(fns, suffix):
    k = [n for n in fns if n.endswith(suffix) and 'poly1305_soft' in n and fns[n].get('kind') == 'fn']
    if len(k) != 1:
        raise Unsupported('cannot locate Poly1305%s in the MIR dump (%d candidates)' % (suffix, len(k)))
    return k[0]


def check(res, name, desc, goal_neg, assume, ex=None, timeout=60000, model_vars=None):
    t0 = time.time()
    s = z3.Solver()
    s.set('timeout', timeout)
    s.add(*assume)
    s.add(goal_neg)
    r = s.check()
    model = None
    if r == z3.sat and model_vars:
        m = s.model()
        model = {k: [m.eval(x, model_completion=True).as_long() for x in v] for k, v in model_vars.items()}
    import kernels
    res.add(name, str(r), time.time() - t0, desc, model=model, error=(s.reason_unknown() if r == z3.unknown else None), functions=sorted(ex.called) if ex else [],
            cross=(kernels.crosscheck(s, name) if r == z3.unsat else None))
    return r


def run_new(fns, res):
    ks = [z3.BitVec('key%d' % i, 8) for i in range(32)]
    ex = PolyExec(fns, 'BV')
    box = {'key': [Sc(8, t=k) for k in ks]}
    st = ex.run(find(fns, '::new'), [Ref(box, 'key')])
    r, h, pad = st[0], st[1], st[2]
    term = lambda v: v.t if v.t is not None else z3.BitVecVal(v.c, v.w)
    r128 = z3.Concat(*reversed(ks[:16])) & z3.BitVecVal(0x0ffffffc0ffffffc0ffffffc0fffffff, 128)
    spec_r = [z3.ZeroExt(20, z3.Extract(43, 0, r128)), z3.ZeroExt(20, z3.Extract(87, 44, r128)), z3.ZeroExt(24, z3.Extract(127, 88, r128))]
    spec_pad = [z3.Concat(*reversed(ks[16:24])), z3.Concat(*reversed(ks[24:32]))]
    bad = z3.Or([term(r[i]) != spec_r[i] for i in range(3)] + [term(pad[i]) != spec_pad[i] for i in range(2)] + [term(h[i]) != 0 for i in range(3)])
    check(res, 'poly1305_new', 'Poly1305::new: r = clamp(key[0..16]) split into 44/44/40-bit limbs, pad = key[16..32], h = 0, for every 32-byte key',
          bad, [], ex, model_vars={'key': ks})
    for i, (d, ok) in enumerate(ex.obls):
        check(res, 'poly1305_new.check%d' % i, 'compiler-inserted check: ' + d[:60], z3.Not(ok), [], ex)
    # the clamped limbs lie in the ranges assumed by the block step
    rb = z3.Or([z3.UGE(term(r[i]), z3.BitVecVal(RUB[i], 64)) for i in range(3)])
    check(res, 'poly1305_new.r_ranges', 'clamped r limbs lie in the ranges assumed by the block-step proof', rb, [], ex)


def run_blocks(fns, res):
    import wit
    name = find(fns, '::blocks')
    for partial in (0, 1):
        tag = 'poly1305_blocks_partial%d' % partial
        h = [z3.Int('h%d' % i) for i in range(3)]
        r = [z3.Int('r%d' % i) for i in range(3)]
        assume = []
        for v, ub in zip(h + r, HUB + RUB):
            assume += [v >= 0, v < ub]
        mb = [z3.Int('m%d' % i) for i in range(16)]
        for b in mb:
            assume += [b >= 0, b < 256]
        ex = PolyExec(fns, 'INT')
        selfobj = [[Sc(64, t=r[i], ub=RUB[i]) for i in range(3)], [Sc(64, t=h[i], ub=HUB[i]) for i in range(3)], [conc(0, 64), conc(0, 64)], []]
        box = {'self': selfobj}
        data = [Sc(8, t=b, ub=256) for b in mb]
        ex.run(name, [Ref(box, 'self'), Sl(data, 0, 16), conc(partial, 1)])
        hout = selfobj[1]
        M = sum(mb[i] * (1 << (8 * i)) for i in range(16)) + (0 if partial else (1 << 128))
        HV = h[0] + (1 << 44) * h[1] + (1 << 88) * h[2]
        RV = r[0] + (1 << 44) * r[1] + (1 << 88) * r[2]
        OV = hout[0].t + (1 << 44) * hout[1].t + (1 << 88) * hout[2].t
        # 1. every compiler-inserted overflow check; earlier checks are path facts for later ones
        facts = [v == d for (v, d, ub) in ex.cuts.values()]
        s = z3.Solver()
        s.set('timeout', 60000)
        s.add(*assume)
        t0 = time.time()
        bad = None
        for i, (desc, ok) in enumerate(ex.obls):
            s.push()
            s.add(*facts)
            s.add(z3.Not(ok))
            rr = s.check()
            if rr != z3.unsat:
                m = s.model() if rr == z3.sat else None
                bad = (desc, str(rr), {k: [m.eval(x, model_completion=True).as_long() for x in v] for k, v in {'h': h, 'r': r, 'm': mb}.items()} if m else None)
                s.pop()
                break
            s.pop()
            facts.append(ok)
        res.add(tag + '.no_overflow', 'unsat' if bad is None else bad[1], time.time() - t0,
                '%d checked u64/u128 operations never overflow from any state in the limb invariant' % len(ex.obls), model=(bad[2] if bad else None), error=(bad[0] if bad else None), functions=sorted(ex.called))
        # 2. cut variables are the limbs of value(h) + m with the bounds used for them
        cutdefs = [v == d for (v, d, ub) in ex.cuts.values()]
        cutbounds = [z3.And(v >= 0, v < ub) for (v, d, ub) in ex.cuts.values()]
        hl = [v for (v, d, ub) in ex.cuts.values() if any(str(x) in ('h0', 'h1', 'h2') for x in z3.z3util.get_vars(d))]
        if len(hl) != 3:
            raise Unsupported('unexpected cut structure in blocks (%d limb cuts)' % len(hl))
        AV = hl[0] + (1 << 44) * hl[1] + (1 << 88) * hl[2]
        check(res, tag + '.limbs', 'the multiplicands are the 44/44/42-bit limbs of value(h) + m (+ 2^128) with the bounds assumed for them',
              z3.Not(z3.And(AV == HV + M, *cutbounds)), assume + cutdefs, ex, model_vars={'h': h, 'r': r, 'm': mb})
        # 3. congruence in witness form
        t0 = time.time()
        rr, why = wit.prove_congruence(AV * RV, OV, P, assume + cutbounds)
        res.add(tag + '.congruence', rr, time.time() - t0, 'value(h\') == (value(h) + m + hibit) * r  (mod 2^130 - 5): ring identity lhs - rhs == p * K checked by z3 (K proposed by exact polynomial division)',
                error=why, functions=sorted(ex.called))
        # 4. invariant
        inv = z3.And(hout[0].t < HUB[0], hout[1].t < HUB[1], hout[2].t < HUB[2], hout[0].t >= 0, hout[1].t >= 0, hout[2].t >= 0)
        check(res, tag + '.invariant', 'the limb invariant is re-established', z3.Not(inv), assume + facts, ex, model_vars={'h': h, 'r': r, 'm': mb})


def run_finalize(fns, res):
    h = [z3.BitVec('h%d' % i, 64) for i in range(3)]
    pad = [z3.BitVec('pad%d' % i, 64) for i in range(2)]
    assume = [z3.ULT(h[i], z3.BitVecVal(HUB[i], 64)) for i in range(3)]
    ex = PolyExec(fns, 'BV')
    selfobj = [[conc(0, 64)] * 3, [Sc(64, t=x) for x in h], [Sc(64, t=x) for x in pad], []]
    box = {'self': selfobj}
    out = [conc(0, 8) for _ in range(16)]
    ex.run(find(fns, '::finalize'), [Ref(box, 'self'), Sl(out, 0, 16)])
    W = 192
    v = z3.ZeroExt(W - 64, h[0]) + (z3.ZeroExt(W - 64, h[1]) << 44) + (z3.ZeroExt(W - 64, h[2]) << 88)
    pv = z3.BitVecVal(P, W)
    red = z3.If(z3.UGE(v, pv), v - pv, v)
    padv = z3.ZeroExt(W - 64, pad[0]) + (z3.ZeroExt(W - 64, pad[1]) << 64)
    tagv = z3.Extract(127, 0, red + padv)
    term = lambda x: x.t if x.t is not None else z3.BitVecVal(x.c, x.w)
    bad = z3.Or([term(out[i]) != z3.Extract(8 * i + 7, 8 * i, tagv) for i in range(16)])
    # value(h) < 2p for every h in the invariant, so one conditional subtraction is the full reduction
    check(res, 'poly1305_finalize.range', 'value(h) < 2p for every h in the limb invariant (one conditional subtraction reduces fully)',
          z3.UGE(v, pv + pv), assume, ex)
    check(res, 'poly1305_finalize', 'Poly1305::finalize (empty buffer): tag == ((value(h) mod 2^130-5) + pad) mod 2^128 for every h in the limb invariant and every pad',
          bad, assume, ex, timeout=300000, model_vars={'h': h, 'pad': pad})
    t0 = time.time()
    badob = None
    for d, ok in ex.obls:
        s = z3.Solver()
        s.set('timeout', 60000)
        s.add(*assume)
        s.add(z3.Not(ok))
        if s.check() != z3.unsat:
            badob = d
            break
    res.add('poly1305_finalize.no_overflow', 'unsat' if badob is None else 'sat', time.time() - t0, '%d checked operations in finalize never overflow' % len(ex.obls), error=badob, functions=sorted(ex.called))


def run(fns, res):
    for fn_ in (run_new, run_blocks, run_finalize):
        try:
            fn_(fns, res)
        except Unsupported as e:
            res.add('poly1305_' + fn_.__name__[4:], 'error', 0, 'MIR construct outside the executor', error='Unsupported: %s' % e)
