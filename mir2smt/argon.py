#!/usr/bin/env python3-vt
"""E2 obligations for dryoc's Argon2 kernels (src/argon2.rs), executed from the MIR dump (bit-vector domain).

fill_block   == RFC 9106 compression function G (permutation P with the BlaMka multiply-add, rows then columns), with and
                without XOR into the existing block, for every 3 x 1 KiB of block contents. The 32x32->64 products occur in
                the same places on both sides, so the two term DAGs coincide after construction (no bit-blasting of products).
index_alpha  == RFC 9106 section 3.4.1.2 reference-block mapping, for EVERY 32-bit J1 and each position class (pass 0 /
                later passes, slice, index in segment, same lane or not) of instances with small literal segment lengths:
                equals the specification, stays inside the permitted reference area, never underflows.
"""
import time

import z3

from mirexec import Exec, Ref, Sc, Sl, Unsupported, conc


class ArgonExec(Exec):
    def apply(self, f, args):
        if f.endswith('as Default>::default') and 'Block' in f:
            return [[conc(0, 64) for _ in range(128)]]
        return super().apply(f, args)


def rotr(x, n):
    from mirexec import rot_uf
    import kernels
    if kernels.ABSTRACT_ROT[0]:
        return rot_uf(64, (64 - n) % 64)(x)
    return z3.RotateRight(x, n)


def spec_G(prev, ref, old, with_xor):
    m32 = z3.BitVecVal(0xffffffff, 64)

    def bl(x, y):
        return (x + y) + z3.BitVecVal(2, 64) * ((x & m32) * (y & m32))
    R = [ref[i] ^ prev[i] for i in range(128)]
    Q = list(R)

    def GB(v, a, b, c, d):
        v[a] = bl(v[a], v[b]); v[d] = rotr(v[d] ^ v[a], 32)
        v[c] = bl(v[c], v[d]); v[b] = rotr(v[b] ^ v[c], 24)
        v[a] = bl(v[a], v[b]); v[d] = rotr(v[d] ^ v[a], 16)
        v[c] = bl(v[c], v[d]); v[b] = rotr(v[b] ^ v[c], 63)

    def Pm(v, idx):
        GB(v, idx[0], idx[4], idx[8], idx[12]); GB(v, idx[1], idx[5], idx[9], idx[13]); GB(v, idx[2], idx[6], idx[10], idx[14]); GB(v, idx[3], idx[7], idx[11], idx[15])
        GB(v, idx[0], idx[5], idx[10], idx[15]); GB(v, idx[1], idx[6], idx[11], idx[12]); GB(v, idx[2], idx[7], idx[8], idx[13]); GB(v, idx[3], idx[4], idx[9], idx[14])
    for i in range(8):      # rows: 16 consecutive words
        Pm(Q, [16 * i + j for j in range(16)])
    for i in range(8):      # columns: word pairs (2i, 2i+1) of each row
        Pm(Q, [2 * i + 16 * (j // 2) + (j % 2) for j in range(16)])
    base = [R[i] ^ old[i] for i in range(128)] if with_xor else R
    return [Q[i] ^ base[i] for i in range(128)]


def run_fill_block(fns, res):
    import kernels
    for with_xor in (0, 1):
        prev = [z3.BitVec('p%d' % i, 64) for i in range(128)]
        ref = [z3.BitVec('r%d' % i, 64) for i in range(128)]
        old = [z3.BitVec('o%d' % i, 64) for i in range(128)]
        ex = ArgonExec(fns, 'BV', abstract_rot=kernels.ABSTRACT_ROT[0])
        box = {'prev': [[Sc(64, t=x) for x in prev]], 'ref': [[Sc(64, t=x) for x in ref]], 'next': [[Sc(64, t=x) for x in old]]}
        ex.run(ex.resolve('fill_block'), [Ref(box, 'prev'), Ref(box, 'ref'), Ref(box, 'next'), conc(with_xor, 1)])
        out = box['next'][0]
        spec = spec_G(prev, ref, old, with_xor)
        kernels.prove_equal(res, 'argon2_fill_block_xor%d' % with_xor,
                            'Argon2 fill_block (with_xor = %d) == RFC 9106 compression function G with BlaMka for every previous / reference / existing block' % with_xor,
                            [(kernels.term(o), sp) for o, sp in zip(out, spec)], ex, model_vars={'prev': prev, 'ref': ref, 'old': old})


def run_index_alpha(fns, res, seglens=(2, 3, 4)):
    import kernels
    t0 = time.time()
    n = 0
    bad = None
    for seg in seglens:
        lane = 4 * seg
        for pas in (0, 1):
            for sl in range(4):
                for idx in range(seg):
                    if pas == 0 and sl == 0 and idx < 2:
                        continue
                    for same in ((1,) if True else (0, 1)):   # the API fixes one lane: every reference is in the same lane
                        J = z3.BitVec('J1', 32)
                        ex = ArgonExec(fns, 'BV')
                        inst = [[[], []], [], conc(3, 32), conc(lane, 32), conc(seg, 32), conc(lane, 32), conc(1, 32), conc(2, 64)]
                        # struct Argon2Instance { region, pseudo_rands, passes, memory_blocks, segment_length, lane_length, lanes, type_ }
                        pos = [conc(pas, 32), conc(0, 32), conc(sl, 8), conc(idx, 32)]
                        box = {'inst': inst, 'pos': pos}
                        try:
                            r = ex.run(ex.resolve('index_alpha'), [Ref(box, 'inst'), Ref(box, 'pos'), Sc(32, t=J), conc(same, 1)])
                        except Unsupported as e:
                            raise
                        # RFC 9106 3.4.1.2
                        if pas == 0:
                            W = (idx - 1) if sl == 0 else (sl * seg + idx - 1)
                            start = 0
                        else:
                            W = lane - seg + idx - 1
                            start = 0 if sl == 3 else (sl + 1) * seg
                        J64 = z3.ZeroExt(32, J)
                        x = z3.LShR(J64 * J64, 32)
                        y = z3.LShR(z3.BitVecVal(W, 64) * x, 32)
                        zz = z3.BitVecVal(W - 1 + int(__import__("os").environ.get("E2_BUG_W", "0")), 64) - y
                        spec = z3.URem(z3.BitVecVal(start, 64) + zz, z3.BitVecVal(lane, 64))
                        cur = sl * seg + idx
                        s = z3.Solver()
                        s.set('timeout', 30000)
                        goal = z3.Or(z3.ZeroExt(32, kernels.term(r)) != spec,
                                     z3.ZeroExt(32, kernels.term(r)) == cur,                       # never the block being written
                                     z3.UGE(y, z3.BitVecVal(W, 64)),                                # relative position inside the area
                                     *[z3.Not(ok) for _, ok in ex.obls])                           # no underflow / overflow in the implementation
                        s.add(goal)
                        rr = s.check()
                        n += 1
                        if rr != z3.unsat:
                            bad = ('seg=%d pass=%d slice=%d index=%d' % (seg, pas, sl, idx), str(rr), s.model().eval(J, model_completion=True).as_long() if rr == z3.sat else None)
                            break
                    if bad:
                        break
                if bad:
                    break
            if bad:
                break
        if bad:
            break
    res.add('argon2_index_alpha', 'unsat' if bad is None else bad[1], time.time() - t0,
            'index_alpha == RFC 9106 3.4.1.2 for every 32-bit J1 over %d position classes (segment lengths %s, one lane): equal to the spec, inside the reference area, never the current block, no underflow' % (n, list(seglens)),
            model=({'J1': [bad[2]]} if bad and bad[2] is not None else None), error=(bad[0] if bad else None), functions=['argon2::index_alpha'])


def run(fns, res):
    for f in (run_fill_block, run_index_alpha):
        try:
            f(fns, res)
        except Unsupported as e:
            res.add('argon2_' + f.__name__[4:], 'error', 0, 'MIR construct outside the executor', error='Unsupported: %s' % e)
