#!/usr/bin/env python3-vt
"""E2: symbolic execution of rustc's MIR text dump (-Zunpretty=mir, overflow-checks on) into z3 terms.

Control flow is concrete (loop trip counts, indices, lengths are literals in the targeted kernels);
data is symbolic. Two arithmetic domains:
  BV  - z3 bit-vectors, wrapping semantics: ARX kernels (BLAKE2b compress, SipHash, HSalsa20, HChaCha20, ...)
  INT - z3 mathematical integers with syntactic upper bounds (Poly1305's 44/44/42-bit limb arithmetic):
        x & (2^k-1) -> mod, x >> k -> div, a | b -> a + b when provably bit-disjoint, checked ops -> exact value
        plus an obligation 0 <= t < 2^w.  EVERY syntactic bound that is relied on is also emitted as an obligation.
Every `assert(..)` the compiler emitted (overflow, shift range, index bounds) with a symbolic condition becomes an
obligation for the solver; with a concrete condition it must hold during execution.
The executor can also run fully concretely, which is how it is validated against the natively compiled function."""
import re
import sys

import z3

WIDTH = {'u8': 8, 'u16': 16, 'u32': 32, 'u64': 64, 'u128': 128, 'usize': 64, 'i8': 8, 'i16': 16, 'i32': 32, 'i64': 64, 'isize': 64, 'bool': 1}
SIGNED = {'i8', 'i16', 'i32', 'i64', 'isize'}


class Unsupported(Exception):
    pass


class Sc:
    """scalar: concrete (c) or symbolic (t: z3 BitVec in BV mode / z3 Int in INT mode, with ub = exclusive upper bound, tz = trailing zero bits)"""
    __slots__ = ('w', 'c', 't', 'ub', 'tz', 'signed')

    def __init__(self, w, c=None, t=None, ub=None, tz=0, signed=False):
        self.w, self.c, self.t, self.signed = w, c, t, signed
        self.ub = ub if ub is not None else ((c + 1) if c is not None and c >= 0 else (1 << w))
        self.tz = tz if c is None else (10 ** 6 if c == 0 else ((c & -c).bit_length() - 1))

    def __repr__(self):
        return 'Sc(w=%d,%s)' % (self.w, self.c if self.c is not None else 'sym')


def conc(n, w, signed=False):
    if not signed:
        n &= (1 << w) - 1
    return Sc(w, c=n, signed=signed)


class Ref:
    __slots__ = ('box', 'key')

    def __init__(self, box, key):
        self.box, self.key = box, key

    def get(self):
        return self.box[self.key]

    def set(self, v):
        self.box[self.key] = v


class Sl:
    """fat pointer to a region of a python list"""
    __slots__ = ('lst', 'off', 'ln')

    def __init__(self, lst, off, ln):
        self.lst, self.off, self.ln = lst, off, ln


class Opt:
    def __init__(self, some, v=None):
        self.some, self.v = some, v


class Rng:
    def __init__(self, a, b):
        self.a, self.b = a, b


class Rev:
    def __init__(self, r):
        self.r = r


class StepBy:
    def __init__(self, r, step):
        self.r, self.step, self.first = r, step, True


class Chunks:
    def __init__(self, sl, n, exact):
        self.sl, self.n, self.pos, self.exact = sl, n, 0, exact


class IterMut:
    def __init__(self, sl):
        self.sl, self.pos = sl, 0


def deepcopy_val(v):
    if isinstance(v, list):
        return [deepcopy_val(x) for x in v]
    return v


def parse_fns(text):
    """line-based parser of the MIR dump: {name: {args, decl, blocks}} for fn and const items"""
    fns = {}
    cur = None
    bb = None
    for line in text.split('\n'):
        if (line.startswith('fn ') or line.startswith('const ') or line.startswith('static ')) and line.endswith('{'):
            if line.startswith('fn '):
                m = re.match(r'^fn (.+?)\((.*)\) -> (.+?) \{$', line)
                if not m:
                    cur = None
                    continue
                name, args, ret = m.groups()
                argl = split_top(args)
                cur = dict(args=[a.split(':')[0].strip() for a in argl], blocks={}, decl={'_0': ret.strip()}, kind='fn')
                for a in argl:
                    k, v = a.split(':', 1)
                    cur['decl'][k.strip()] = v.strip()
            else:
                m = re.match(r'^(?:const|static) (.+?): (.+?) = \{$', line)
                if not m:
                    cur = None
                    continue
                name, ret = m.groups()
                cur = dict(args=[], blocks={}, decl={'_0': ret.strip()}, kind='const')
            fns.setdefault(name.strip(), cur)
            bb = None
            continue
        m = re.match(r'^const (.+?): (\w+) = const (-?\d+)_(\w+);$', line)
        if m:
            fns.setdefault(m.group(1).strip(), dict(kind='lit', value=int(m.group(3)), ty=m.group(4)))
            continue
        if cur is None:
            continue
        if line == '}':
            cur = None
            continue
        m = re.match(r'^    let (?:mut )?(_\d+): (.+);$', line)
        if m:
            cur['decl'][m.group(1)] = m.group(2)
            continue
        m = re.match(r'^    (bb\d+)(?: \(cleanup\))?: \{$', line)
        if m:
            bb = m.group(1)
            cur['blocks'][bb] = []
            continue
        if line == '    }':
            bb = None
            continue
        if bb is not None and line.startswith('        '):
            cur['blocks'][bb].append(line.strip())
    return fns


def split_top(s, sep=','):
    out, d, curp = [], 0, ''
    for ch in s:
        if ch in '(<[{':
            d += 1
        if ch in ')>]}':
            d -= 1
        if ch == sep and d == 0:
            out.append(curp)
            curp = ''
        else:
            curp += ch
    if curp.strip():
        out.append(curp)
    return out


def strip_parens(s):
    s = s.strip()
    while s.startswith('(') and s.endswith(')'):
        d = 0
        ok = True
        for i, ch in enumerate(s):
            if ch == '(':
                d += 1
            elif ch == ')':
                d -= 1
                if d == 0 and i != len(s) - 1:
                    ok = False
                    break
        if not ok:
            break
        s = s[1:-1].strip()
    return s


class Exec:
    def __init__(self, fns, mode='BV', abstract_rot=False):
        self.fns = fns
        self.mode = mode
        self.abstract_rot = abstract_rot   # rotations as uninterpreted functions (sound abstraction for equivalence proofs)
        self.obls = []     # (description, z3 Bool that must hold)
        self.path = []
        self.cuts = {}
        self.called = set()
        self.steps = 0

    # ------------------------------------------------------------------ name resolution
    def resolve(self, name, kinds=('fn',)):
        name = name.strip()
        if name in self.fns and self.fns[name].get('kind') in kinds:
            return name
        cands = [k for k, v in self.fns.items() if v.get('kind') in kinds and (k.endswith('::' + name) or name.endswith('::' + k))]
        if len(cands) == 1:
            return cands[0]
        # generic instantiation suffix: foo::<T> -> foo
        base = re.sub(r'::<.*>$', '', name)
        if base != name:
            return self.resolve(base, kinds)
        if len(cands) > 1:
            # prefer the longest common suffix
            best = sorted(cands, key=lambda k: -len(k))[0]
            return best
        return None

    # ------------------------------------------------------------------ scalars
    def sym_of(self, v):
        if v.t is not None:
            return v.t
        if self.mode == 'BV':
            return z3.BitVecVal(v.c & ((1 << v.w) - 1), v.w)
        return z3.IntVal(v.c)

    def mk(self, w, t, ub=None, tz=0):
        if self.mode == 'BV':
            return Sc(w, t=t)
        return Sc(w, t=t, ub=ub, tz=tz)

    def rotl(self, w, x, k):
        """rotate-left of a z3 bit-vector term by the constant k"""
        k %= w
        if k == 0:
            return x
        if self.abstract_rot:
            return rot_uf(w, k)(x)
        return z3.RotateLeft(x, k)

    def match_rot(self, a, b):
        """(x << k) | (x >> (w - k))  ->  rotl(x, k)"""
        for p, q in ((a, b), (b, a)):
            if z3.is_app(p) and z3.is_app(q) and p.decl().kind() == z3.Z3_OP_BSHL and q.decl().kind() == z3.Z3_OP_BLSHR:
                if p.arg(0).eq(q.arg(0)) and z3.is_bv_value(p.arg(1)) and z3.is_bv_value(q.arg(1)):
                    w = p.size()
                    k1, k2 = p.arg(1).as_long(), q.arg(1).as_long()
                    if 0 < k1 < w and k1 + k2 == w:
                        return self.rotl(w, p.arg(0), k1)
        return None

    def binop(self, op, a, b, wout=None, signed=False):
        if not isinstance(a, Sc) or not isinstance(b, Sc):
            raise Unsupported('binop on non-scalars %s' % op)
        w = a.w
        cmpops = {'Lt': lambda x, y: x < y, 'Le': lambda x, y: x <= y, 'Gt': lambda x, y: x > y, 'Ge': lambda x, y: x >= y,
                  'Eq': lambda x, y: x == y, 'Ne': lambda x, y: x != y}
        if a.c is not None and b.c is not None:
            x, y = a.c, b.c
            if op in cmpops:
                return conc(int(cmpops[op](x, y)), 1)
            m = (1 << w) - 1
            if op in ('Shl', 'Shr'):
                y = b.c & 0xffffffff
            r = {'Add': lambda: (x + y) & m, 'Sub': lambda: (x - y) & m, 'Mul': lambda: (x * y) & m, 'BitAnd': lambda: x & y,
                 'BitOr': lambda: x | y, 'BitXor': lambda: x ^ y, 'Shl': lambda: (x << y) & m, 'Shr': lambda: x >> y,
                 'Rem': lambda: x % y, 'Div': lambda: x // y}[op]()
            return conc(r, w, signed=a.signed)
        if self.mode == 'BV':
            return self.binop_bv(op, a, b)
        return self.binop_int(op, a, b)

    def binop_bv(self, op, a, b):
        w = a.w
        x, y = self.sym_of(a), self.sym_of(b)
        if op in ('Shl', 'Shr'):
            if b.c is None:
                raise Unsupported('symbolic shift amount')
            k = b.c & 0xffffffff
            return self.mk(w, (x << k) if op == 'Shl' else z3.LShR(x, k))
        if b.w != w:
            raise Unsupported('width mismatch in %s' % op)
        if op in ('Eq', 'Ne', 'Lt', 'Le', 'Gt', 'Ge'):
            t = {'Eq': x == y, 'Ne': x != y, 'Lt': z3.ULT(x, y), 'Le': z3.ULE(x, y), 'Gt': z3.UGT(x, y), 'Ge': z3.UGE(x, y)}[op]
            return Sc(1, t=t)
        if op == 'BitOr':
            r = self.match_rot(x, y)
            if r is not None:
                return self.mk(w, r)
        if op in ('Rem', 'Div'):
            return self.mk(w, z3.URem(x, y) if op == 'Rem' else z3.UDiv(x, y))
        t = {'Add': lambda: x + y, 'Sub': lambda: x - y, 'Mul': lambda: x * y, 'BitAnd': lambda: x & y, 'BitOr': lambda: x | y, 'BitXor': lambda: x ^ y}[op]()
        r = self.mk(w, t)
        if op == 'BitAnd':
            for u, v in ((a, b), (b, a)):
                if v.c is not None and (v.c & (v.c + 1)) == 0:
                    r.ub = min(u.ub, v.c + 1)     # x & (2^k - 1) < 2^k: a syntactic bound, used to discharge overflow checks without the solver
        return r

    def binop_int(self, op, a, b):
        w = a.w
        if op == 'BitAnd':
            if b.c is None and a.c is not None:
                a, b = b, a
            c = b.c
            if c is None or (c & (c + 1)) != 0:
                raise Unsupported('INT BitAnd with non-low-mask')
            if a.ub <= c + 1:
                return a
            return Sc(w, t=modpow2(a.t, c + 1), ub=c + 1, tz=a.tz)
        if op == 'BitOr':
            for x, y in ((a, b), (b, a)):
                if y.tz >= 10 ** 6:
                    return x
                if x.ub <= (1 << y.tz):
                    return Sc(w, t=self.sym_of(x) + self.sym_of(y), ub=min(1 << w, x.ub + y.ub - 1), tz=min(x.tz, y.tz))
            raise Unsupported('INT BitOr operands not provably bit-disjoint')
        if op == 'Shr':
            k = b.c
            if k is None:
                raise Unsupported('symbolic shift')
            return Sc(w, t=self.sym_of(a) / (1 << k), ub=((a.ub - 1) >> k) + 1, tz=max(0, a.tz - k) if a.tz < 10 ** 6 else a.tz)
        if op == 'Shl':
            k = b.c
            if k is None:
                raise Unsupported('symbolic shift')
            ub = (a.ub - 1) * (1 << k) + 1
            if ub <= (1 << w):
                return Sc(w, t=self.sym_of(a) * (1 << k), ub=ub, tz=a.tz + k)
            return Sc(w, t=(self.sym_of(a) * (1 << k)) % (1 << w), ub=1 << w, tz=a.tz + k)
        if op in ('Add', 'Sub', 'Mul'):   # unchecked arithmetic: wrapping
            v, ok = self.checked_int(op, a, b)
            if v.ub <= (1 << w) and op != 'Sub':
                return v
            return Sc(w, t=v.t % (1 << w), ub=1 << w)
        raise Unsupported('INT op ' + op)

    def checked(self, op, a, b):
        """`<op>WithOverflow`: returns [value, overflow-flag]. flag is a concrete Sc(1) or an 'ok-condition' wrapped as Sc(1,t=Not(ok))"""
        w = a.w
        if a.c is not None and b.c is not None:
            x, y = a.c, b.c
            r = {'Add': x + y, 'Sub': x - y, 'Mul': x * y}[op]
            ov = not (0 <= r < (1 << w))
            return [conc(r, w), conc(int(ov), 1)]
        if self.mode == 'BV':
            x, y = self.sym_of(a), self.sym_of(b)
            if op == 'Mul' and (a.ub - 1) * (b.ub - 1) < (1 << w):
                return [self.mk(w, x * y), conc(0, 1)]     # both factors carry syntactic bounds (masks): the product cannot overflow
            if op == 'Add':
                t, ok = x + y, z3.BVAddNoOverflow(x, y, False)
            elif op == 'Sub':
                t, ok = x - y, z3.BVSubNoUnderflow(x, y, False)
            else:
                t, ok = x * y, z3.BVMulNoOverflow(x, y, False)
            return [self.mk(w, t), Sc(1, t=z3.Not(ok))]
        v, ok = self.checked_int(op, a, b)
        return [v, Sc(1, t=z3.Not(ok))]

    def checked_int(self, op, a, b):
        w = a.w
        if op == 'Add':
            t = self.sym_of(a) + self.sym_of(b)
            ub = a.ub + b.ub - 1
        elif op == 'Mul':
            if a.c is None and b.c is None:
                a, b = self.atomize(a), self.atomize(b)
            t = self.sym_of(a) * self.sym_of(b)
            ub = (a.ub - 1) * (b.ub - 1) + 1
        else:
            t = self.sym_of(a) - self.sym_of(b)
            ub = a.ub
        ok = z3.And(t < (1 << w), t >= 0)
        return Sc(w, t=t, ub=min(ub, 1 << w)), ok

    def atomize(self, a):
        """cut point: replace a non-polynomial multiplicand (contains div/mod) by a fresh bounded variable, remember the definition"""
        if a.c is not None or z3.is_const(a.t):
            return a

        def nonpoly(e):
            if z3.is_app(e) and e.decl().kind() in (z3.Z3_OP_IDIV, z3.Z3_OP_MOD, z3.Z3_OP_DIV):
                return True
            return any(nonpoly(c) for c in e.children())
        if not nonpoly(a.t):
            return a
        key = a.t.get_id()
        if key not in self.cuts:
            v = z3.Int('cut%d' % len(self.cuts))
            self.cuts[key] = (v, a.t, a.ub)
        return Sc(a.w, t=self.cuts[key][0], ub=a.ub)

    def cast(self, a, w, signed=False):
        if a.c is not None:
            v = a.c
            if a.signed and v < 0:
                v &= (1 << w) - 1
            return conc(v, w, signed=signed)
        if self.mode == 'BV':
            x = a.t
            if a.w == 1 and z3.is_bool(x):
                x = z3.If(x, z3.BitVecVal(1, 1), z3.BitVecVal(0, 1))
            if w > a.w:
                return self.mk(w, z3.ZeroExt(w - a.w, x))
            if w < a.w:
                return self.mk(w, z3.Extract(w - 1, 0, x))
            return a
        if w >= a.w or a.ub <= (1 << w):
            return Sc(w, t=a.t, ub=min(a.ub, 1 << w), tz=a.tz)
        return Sc(w, t=modpow2(a.t, 1 << w), ub=1 << w, tz=a.tz)

    # ------------------------------------------------------------------ places
    def parse_place(self, s):
        s = s.strip()
        # trailing index projections
        if s.endswith(']') and not s.startswith('['):
            d = 0
            for i in range(len(s) - 1, -1, -1):
                if s[i] == ']':
                    d += 1
                elif s[i] == '[':
                    d -= 1
                    if d == 0:
                        base, idx = s[:i], s[i + 1:-1]
                        if base:
                            m = re.match(r'^(\d+) of \d+$', idx)
                            if m:
                                return ('cidx', self.parse_place(base), int(m.group(1)))
                            return ('idx', self.parse_place(base), idx.strip())
                        break
        if s.startswith('(') and s.endswith(')'):
            inner = s[1:-1]
            if inner.startswith('*'):
                return ('deref', self.parse_place(inner[1:]))
            # (P as Variant)
            m = re.match(r'^(.*) as (\w+)$', inner)
            if m and balanced(m.group(1)):
                return ('down', self.parse_place(m.group(1)), m.group(2))
            # (P.N: type)
            d = 0
            for i, ch in enumerate(inner):
                if ch in '([{<':
                    d += 1
                elif ch in ')]}>':
                    d -= 1
                elif ch == ':' and d == 0:
                    left = inner[:i]
                    m = re.match(r'^(.*)\.(\d+)$', left.strip())
                    if m:
                        return ('field', self.parse_place(m.group(1)), int(m.group(2)))
                    break
            return self.parse_place(inner)
        if re.match(r'^_\d+$', s):
            return ('local', s)
        raise Unsupported('place ' + s)

    def lval(self, fr, p):
        """-> (box, key) or ('slice', Sl)"""
        k = p[0]
        if k == 'local':
            return (fr, p[1])
        if k == 'deref':
            v = self.rd(fr, p[1])
            if isinstance(v, Ref):
                return (v.box, v.key)
            if isinstance(v, Sl):
                return ('slice', v)
            raise Unsupported('deref of %r' % (v,))
        if k == 'field' and p[1][0] == 'down':
            obj = self.rd(fr, p[1][1])
            if isinstance(obj, Opt) and p[2] == 0:
                if not obj.some:
                    raise Unsupported('payload of a None option')
                return (OptBox(obj), 0)
            raise Unsupported('downcast field of %r' % (obj,))
        if k == 'field':
            obj = self.rd(fr, p[1])
            if isinstance(obj, list):
                return (obj, p[2])
            raise Unsupported('field of %r' % (obj,))
        if k == 'down':
            obj = self.rd(fr, p[1])
            if isinstance(obj, Opt):
                return (OptBox(obj), 0)
            raise Unsupported('downcast of %r' % (obj,))
        if k in ('idx', 'cidx'):
            i = p[2] if k == 'cidx' else self.rd(fr, ('local', p[2]))
            if isinstance(i, Sc):
                if i.c is None:
                    raise Unsupported('symbolic index')
                i = i.c
            lv = self.lval(fr, p[1])
            if lv[0] == 'slice':
                sl = lv[1]
                if not (0 <= i < sl.ln):
                    raise Unsupported('index %d out of slice bounds %d' % (i, sl.ln))
                return (sl.lst, sl.off + i)
            obj = lv[0][lv[1]]
            if isinstance(obj, Sl):
                return (obj.lst, obj.off + i)
            if isinstance(obj, list):
                return (obj, i)
            raise Unsupported('index into %r' % (obj,))
        raise Unsupported('lval ' + str(p))

    def rd(self, fr, p):
        lv = self.lval(fr, p)
        if lv[0] == 'slice':
            return lv[1]
        return lv[0][lv[1]]

    def wr(self, fr, p, v):
        lv = self.lval(fr, p)
        if lv[0] == 'slice':
            raise Unsupported('write to unsized place')
        lv[0][lv[1]] = v

    # ------------------------------------------------------------------ operands / rvalues
    def operand(self, fr, s):
        s = s.strip()
        if s.startswith('no_retag '):
            s = s[len('no_retag '):]
        m = re.match(r'^const (-?\d+)_(\w+)$', s)
        if m:
            ty = m.group(2)
            return conc(int(m.group(1)), WIDTH[ty], signed=ty in SIGNED)
        if s in ('const true', 'const false'):
            return conc(1 if s.endswith('true') else 0, 1)
        m = re.match(r'^const (.+)$', s)
        if m:
            nm = m.group(1)
            k = self.resolve(nm, kinds=('const', 'lit'))
            if k is None:
                raise Unsupported('const ' + nm)
            it = self.fns[k]
            if it['kind'] == 'lit':
                return conc(it['value'], WIDTH[it['ty']])
            return self.run(k, [])
        m = re.match(r'^(copy|move) (.+)$', s)
        if m:
            v = self.rd(fr, self.parse_place(m.group(2)))
            return deepcopy_val(v) if isinstance(v, list) else v
        raise Unsupported('operand ' + s)

    def rvalue(self, fn, fr, dst, rhs):
        rhs = rhs.strip()
        m = re.match(r'^(\w+)WithOverflow\((.+)\)$', rhs)
        if m:
            a, b = [self.operand(fr, x) for x in split_top(m.group(2))]
            return self.checked(m.group(1), a, b)
        m = re.match(r'^(Lt|Le|Gt|Ge|Eq|Ne|BitAnd|BitOr|BitXor|Shr|Shl|Add|Sub|Mul|Rem|Div)\((.+)\)$', rhs)
        if m:
            a, b = [self.operand(fr, x) for x in split_top(m.group(2))]
            return self.binop(m.group(1), a, b)
        m = re.match(r'^Not\((.+)\)$', rhs)
        if m:
            a = self.operand(fr, m.group(1))
            if a.c is not None:
                return conc((~a.c) & ((1 << a.w) - 1), a.w)
            if self.mode == 'BV':
                return Sc(a.w, t=z3.Not(a.t)) if z3.is_bool(a.t) else self.mk(a.w, ~a.t)
            raise Unsupported('INT Not')
        m = re.match(r'^(.+) as (\w+) \(IntToInt\)$', rhs)
        if m:
            return self.cast(self.operand(fr, m.group(1)), WIDTH[m.group(2)], signed=m.group(2) in SIGNED)
        m = re.match(r'^(.+) as (.+) \(PointerCoercion\(Unsize.*\)\)$', rhs)
        if m:
            v = self.operand(fr, m.group(1))
            if isinstance(v, Ref):
                arr = v.get()
                if isinstance(arr, list):
                    return Sl(arr, 0, len(arr))
            if isinstance(v, Sl):
                return v
            raise Unsupported('unsize of %r' % (v,))
        m = re.match(r'^PtrMetadata\((.+)\)$', rhs)
        if m:
            v = self.operand(fr, m.group(1))
            if isinstance(v, Sl):
                return conc(v.ln, 64)
            raise Unsupported('PtrMetadata of %r' % (v,))
        m = re.match(r'^discriminant\((.+)\)$', rhs)
        if m:
            v = self.rd(fr, self.parse_place(m.group(1)))
            if isinstance(v, Opt):
                return conc(1 if v.some else 0, 64)
            raise Unsupported('discriminant of %r' % (v,))
        m = re.match(r'^&(mut |raw const |raw mut )?(.+)$', rhs)
        if m:
            p = self.parse_place(m.group(2))
            if p[0] == 'deref':
                v = self.rd(fr, p[1])
                if isinstance(v, (Ref, Sl)):
                    return v
            lv = self.lval(fr, p)
            if lv[0] == 'slice':
                return lv[1]
            return Ref(lv[0], lv[1])
        m = re.match(r'^\[(.+); (\d+)\]$', rhs)
        if m and balanced(m.group(1)):
            v = self.operand(fr, m.group(1))
            return [deepcopy_val(v) for _ in range(int(m.group(2)))]
        if rhs.startswith('[') and rhs.endswith(']'):
            return [self.operand(fr, x) for x in split_top(rhs[1:-1])]
        m = re.match(r'^std::ops::Range::<\w+> \{ start: (.+), end: (.+) \}$', rhs)
        if m:
            a, b = self.operand(fr, m.group(1)), self.operand(fr, m.group(2))
            return Rng(a.c, b.c)
        m = re.match(r'^std::ops::RangeFrom::<\w+> \{ start: (.+) \}$', rhs)
        if m:
            return Rng(self.operand(fr, m.group(1)).c, None)
        m = re.match(r'^(?:std::ops::)?RangeTo::<\w+> \{ end: (.+) \}$', rhs)
        if m:
            return Rng(0, self.operand(fr, m.group(1)).c)
        m = re.match(r'^\{closure@[^}]*\} \{ (.*) \}$', rhs)
        if m:
            fields = split_top(m.group(1))
            return [self.operand(fr, f.split(':', 1)[1]) for f in fields]
        if re.match(r'^\{closure@[^}]*\}$', rhs):
            return []
        m = re.match(r'^Option::<.*>::None$', rhs)
        if m:
            return Opt(False)
        m = re.match(r'^Option::<.*>::Some\((.+)\)$', rhs)
        if m:
            return Opt(True, self.operand(fr, m.group(1)))
        if rhs.startswith('(') and rhs.endswith(')') and not rhs.startswith('(*') and not re.match(r'^\((copy|move) ', rhs) is None or (rhs.startswith('(') and rhs.endswith(',)')):
            parts = split_top(rhs[1:-1])
            if all(re.match(r'^\s*(copy|move|const) ', x) for x in parts):
                return [self.operand(fr, x) for x in parts]
        if rhs.startswith('(const ') and rhs.endswith(')'):
            return [self.operand(fr, x) for x in split_top(rhs[1:-1])]
        return self.operand(fr, rhs)

    # ------------------------------------------------------------------ calls
    def call(self, fr, call):
        m = re.match(r'^(.+?)\((.*)\)$', call, re.S)
        f, argstr = m.group(1).strip(), m.group(2)
        # the callee name may itself contain parentheses (generic tuples): find the split by balance from the right
        d = 0
        for i in range(len(call) - 1, -1, -1):
            if call[i] == ')':
                d += 1
            elif call[i] == '(':
                d -= 1
                if d == 0:
                    f, argstr = call[:i].strip(), call[i + 1:-1]
                    break
        args = [self.operand(fr, a) for a in split_top(argstr)] if argstr.strip() else []
        return self.apply(f, args)

    def apply(self, f, args):
        # closures
        m = re.match(r'^<\{closure@(.+?)\} as Fn(?:Mut|Once)?<', f)
        if m:
            loc = m.group(1)
            k = [n for n, v in self.fns.items() if v.get('kind') == 'fn' and ('{closure@' + loc + '}') in v['decl'].get('_1', '')]
            if len(k) != 1:
                raise Unsupported('closure body for ' + loc)
            clo, tup = args
            return self.run(k[0], [clo] + list(tup))
        k = self.resolve(f)
        if k is not None and not f.startswith('<') and 'core::' not in f and 'std::' not in f:
            return self.run(k, args)
        # ---- natively modelled library functions
        if re.search(r'::wrapping_(add|sub|mul)$', f):
            op = {'add': 'Add', 'sub': 'Sub', 'mul': 'Mul'}[f.rsplit('_', 1)[1]]
            a, b = args
            if a.c is not None and b.c is not None:
                return self.binop(op, a, b)
            if self.mode == 'BV':
                return self.binop_bv(op, a, b)
            v, _ = self.checked_int(op, a, b)
            if v.ub <= (1 << a.w) and op == 'Add':
                return v
            return Sc(a.w, t=v.t % (1 << a.w), ub=1 << a.w)
        if f.endswith('::rotate_left') or f.endswith('::rotate_right'):
            a, b = args
            k2 = b.c % a.w
            if f.endswith('right'):
                k2 = (a.w - k2) % a.w
            if a.c is not None:
                m_ = (1 << a.w) - 1
                return conc(((a.c << k2) | (a.c >> (a.w - k2))) & m_, a.w)
            if self.mode != 'BV':
                raise Unsupported('INT rotate')
            return self.mk(a.w, self.rotl(a.w, a.t, k2))
        if f.endswith('::to_le_bytes'):
            a = args[0]
            if a.c is not None or self.mode != 'BV':
                return [self.cast(self.binop('Shr', a, conc(8 * i, 32)), 8) for i in range(a.w // 8)]
            return [Sc(8, t=z3.Extract(8 * i + 7, 8 * i, a.t)) for i in range(a.w // 8)]
        if f.endswith('::from_le_bytes'):
            bs = args[0]
            w = 8 * len(bs)
            acc = self.cast(bs[0], w)
            for i in range(1, len(bs)):
                acc = self.binop('BitOr', acc, self.binop('Shl', self.cast(bs[i], w), conc(8 * i, 32)))
            return acc
        if f.endswith('::copy_from_slice'):
            dst, src = args
            if dst.ln != src.ln:
                raise Unsupported('copy_from_slice length mismatch %d vs %d (would panic)' % (dst.ln, src.ln))
            vals = [src.lst[src.off + i] for i in range(src.ln)]
            for i, v in enumerate(vals):
                dst.lst[dst.off + i] = v
            return []
        if re.search(r' as Index(Mut)?<.*Range.*>>::index(_mut)?$', f):
            base, r = args
            if isinstance(base, Ref):
                arr = base.get()
                base = Sl(arr, 0, len(arr))
            end = r.b if r.b is not None else base.ln
            if not (0 <= r.a <= end <= base.ln):
                raise Unsupported('slice range out of bounds (would panic)')
            return Sl(base.lst, base.off + r.a, end - r.a)
        if f.endswith('::as_array') or f.endswith('::as_mut_array') or f.endswith('::as_slice') or f.endswith('::as_mut_slice'):
            return args[0]
        if re.search(r' as types::Bytes>::len$', f) or f.endswith('<impl [u8]>::len'):
            a = args[0]
            if isinstance(a, Ref):
                return conc(len(a.get()), 64)
            return conc(a.ln, 64)
        if f.endswith('::chunks_exact') or f.endswith('::chunks'):
            return Chunks(args[0], args[1].c, f.endswith('exact'))
        if f.endswith('::remainder'):
            it = args[0]
            if isinstance(it, Ref):
                it = it.get()
            full = (it.sl.ln // it.n) * it.n
            return Sl(it.sl.lst, it.sl.off + full, it.sl.ln - full)
        if f.endswith('::rev'):
            return Rev(args[0])
        if f.endswith('::step_by'):
            return StepBy(args[0], args[1].c)
        if f.endswith('as IntoIterator>::into_iter'):
            a = args[0]
            if isinstance(a, Sl):
                return IterMut(a)
            return a
        if f.endswith('::iter_mut') or f.endswith('::iter'):
            return IterMut(args[0])
        if f.endswith('as Iterator>::next'):
            it = args[0]
            if isinstance(it, Ref):
                it = it.get()
            if isinstance(it, Rng):
                if it.a >= it.b:
                    return Opt(False)
                v = it.a
                it.a += 1
                return Opt(True, conc(v, self.range_width(f)))
            if isinstance(it, Rev):
                r = it.r
                if r.a >= r.b:
                    return Opt(False)
                r.b -= 1
                return Opt(True, conc(r.b, self.range_width(f)))
            if isinstance(it, StepBy):
                r = it.r
                if r.a >= r.b:
                    return Opt(False)
                v = r.a
                r.a += it.step
                return Opt(True, conc(v, self.range_width(f), signed='i32' in f))
            if isinstance(it, Chunks):
                rem = it.sl.ln - it.pos
                if rem <= 0 or (it.exact and rem < it.n):
                    return Opt(False)
                n = min(it.n, rem)
                s = Sl(it.sl.lst, it.sl.off + it.pos, n)
                it.pos += n
                return Opt(True, s)
            if isinstance(it, IterMut):
                if it.pos >= it.sl.ln:
                    return Opt(False)
                r = Ref(it.sl.lst, it.sl.off + it.pos)
                it.pos += 1
                return Opt(True, r)
            raise Unsupported('next on %r' % (it,))
        if re.search(r'^<u(16|32|64|128) as From<u(8|16|32|64)>>::from$', f):
            w = int(re.search(r'^<u(\d+)', f).group(1))
            return self.cast(args[0], w)
        if 'unwrap_or' in f and isinstance(args[0], Opt):
            return args[0].v if args[0].some else args[1]
        raise Unsupported('call ' + f)

    def range_width(self, f):
        m = re.search(r'Range<(\w+)>', f)
        return WIDTH.get(m.group(1), 64) if m else 64

    # ------------------------------------------------------------------ execution
    def run(self, name, args):
        fn = self.fns[name]
        self.called.add(name)
        fr = {}
        for a, v in zip(fn['args'], args):
            fr[a] = v
        bb = 'bb0'
        while True:
            nxt = None
            for st in fn['blocks'][bb]:
                self.steps += 1
                nxt = self.stmt(fn, fr, st)
                if nxt == 'return':
                    r = fr.get('_0', [])
                    if self.mode == 'BV' and isinstance(r, Sc) and r.t is not None and re.search(r'load_u\d+_le$', name):
                        r = Sc(r.w, t=z3.simplify(r.t))
                    return r
                if nxt is not None:
                    break
            if nxt is None:
                raise Unsupported('fell off the end of ' + bb + ' in ' + name)
            bb = nxt

    def stmt(self, fn, fr, st):
        if st.startswith('//'):
            return None
        if st.endswith(';'):
            st = st[:-1]
        if st.startswith(('StorageLive', 'StorageDead', 'FakeRead', 'nop', 'PlaceMention', 'AscribeUserType', 'Retag', 'ConstEvalCounter', 'Coverage')):
            return None
        if st == 'return':
            return 'return'
        m = re.match(r'^goto -> (bb\d+)$', st)
        if m:
            return m.group(1)
        m = re.match(r'^drop\(.*\) -> \[return: (bb\d+)', st)
        if m:
            return m.group(1)
        m = re.match(r'^switchInt\((.+?)\) -> \[(.+)\]$', st)
        if m:
            v = self.operand(fr, m.group(1))
            if v.c is None:
                raise Unsupported('symbolic branch: ' + st[:80])
            tgt = None
            for arm in m.group(2).split(', '):
                k, t = arm.split(': ')
                if k == 'otherwise':
                    tgt = tgt or t
                elif int(k) == v.c:
                    tgt = t
                    break
            return tgt
        m = re.match(r'^assert\((!?)(.+?), "(.*?)"(.*)\) -> \[success: (bb\d+)', st)
        if m:
            neg, opnd, msg, _, tgt = m.groups()
            v = self.operand(fr, opnd)
            if v.c is not None:
                if bool(v.c) == bool(neg):
                    raise Unsupported('assertion fails on a concrete value (would panic): ' + st[:120])
            else:
                t = v.t
                if not z3.is_bool(t):
                    t = (t == 1) if self.mode == 'BV' else (t != 0)
                ok = z3.Not(t) if neg else t
                self.obls.append((msg + ' @ ' + st[:70], ok))
                self.path.append(ok)
            return tgt
        m = re.match(r'^(.+?) = (.+?) -> \[return: (bb\d+)', st)
        if m:
            dst, call, tgt = m.groups()
            self.wr(fr, self.parse_place(dst), self.call(fr, call))
            return tgt
        m = re.match(r'^(.+?) -> unwind', st)
        if m and 'assert_failed' in st:
            raise Unsupported('reached assert_failed (would panic)')
        m = re.match(r'^(\S.*?) = (.+)$', st)
        if m:
            dst, rhs = m.groups()
            self.wr(fr, self.parse_place(dst), self.rvalue(fn, fr, dst, rhs))
            return None
        if st == 'unreachable':
            raise Unsupported('unreachable executed')
        raise Unsupported('stmt ' + st)


_ROT = {}


def rot_uf(w, k):
    if (w, k) not in _ROT:
        _ROT[(w, k)] = z3.Function('rotl%d_%d' % (w, k), z3.BitVecSort(w), z3.BitVecSort(w))
    return _ROT[(w, k)]


class OptBox:
    """lets ((_x as Some).0) be addressed like a container slot"""

    def __init__(self, o):
        self.o = o

    def __getitem__(self, k):
        return self.o.v

    def __setitem__(self, k, v):
        self.o.v = v


def balanced(s):
    d = 0
    for ch in s:
        if ch in '([{':
            d += 1
        elif ch in ')]}':
            d -= 1
            if d < 0:
                return False
    return d == 0


def modpow2(t, m):
    # (y mod 2^a) mod 2^k == y mod 2^k when 2^k divides 2^a
    if z3.is_app(t) and t.decl().kind() == z3.Z3_OP_MOD and z3.is_int_value(t.arg(1)):
        inner = t.arg(1).as_long()
        if inner % m == 0:
            return t.arg(0) % m
    return t % m
