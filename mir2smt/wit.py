"""witness-form discharge of a congruence mod P: div/mod elimination + sympy exact division (hint) + z3 check of the ring identity"""
# witness-form discharge of the Poly1305 congruence: div-elimination + sympy exact division (hint) + z3 check
import z3, sympy, time, sys
sys.setrecursionlimit(10000)
def elim(e, qs, cons, cache):
    """rewrite Int term e without div/mod: x div c -> q, x mod c -> x' - c*q, with c*q <= x' < c*q + c"""
    k = e.get_id()
    if k in cache: return cache[k]
    if z3.is_int_value(e) or z3.is_const(e): r = e
    else:
        kind = e.decl().kind(); ch = e.children()
        if kind in (z3.Z3_OP_IDIV, z3.Z3_OP_MOD):
            x = elim(ch[0], qs, cons, cache); c = ch[1]
            assert z3.is_int_value(c)
            key = ('q', ch[0].get_id(), c.as_long())
            if key not in qs:
                q = z3.Int(f'q{len(qs)}'); qs[key] = q
                cons += [c * q <= x, x < c * q + c]
            q = qs[key]
            r = q if kind == z3.Z3_OP_IDIV else x - c * q
        elif kind == z3.Z3_OP_ADD: r = z3.Sum([elim(c, qs, cons, cache) for c in ch])
        elif kind == z3.Z3_OP_MUL:
            r = elim(ch[0], qs, cons, cache)
            for c in ch[1:]: r = r * elim(c, qs, cons, cache)
        elif kind == z3.Z3_OP_SUB:
            r = elim(ch[0], qs, cons, cache)
            for c in ch[1:]: r = r - elim(c, qs, cons, cache)
        else: raise NotImplementedError(e.decl().name())
    cache[k] = r
    return r
def to_sympy(e, syms):
    if z3.is_int_value(e): return sympy.Integer(e.as_long())
    if z3.is_const(e): return syms.setdefault(str(e), sympy.Symbol(str(e)))
    kind = e.decl().kind(); ch = [to_sympy(c, syms) for c in e.children()]
    if kind == z3.Z3_OP_ADD: return sum(ch)
    if kind == z3.Z3_OP_MUL:
        r = ch[0]
        for c in ch[1:]: r = r * c
        return r
    if kind == z3.Z3_OP_SUB:
        r = ch[0]
        for c in ch[1:]: r = r - c
        return r
    if kind == z3.Z3_OP_UMINUS: return -ch[0]
    raise NotImplementedError(e.decl().name())
def prove_congruence(lhs, rhs, P, assumptions):
    """-> (status, reason). 'unsat' = the congruence lhs == rhs (mod P) holds for all values satisfying `assumptions`."""
    qs, cons, cache = {}, [], {}
    d = elim(lhs - rhs, qs, cons, cache)
    syms = {}
    poly = sympy.expand(to_sympy(d, syms))
    quo, rem = sympy.div(sympy.Poly(poly, *syms.values()), sympy.Poly(sympy.Integer(P), *syms.values()), domain='ZZ')
    if not rem.is_zero:
        return 'unknown', 'exact division of lhs - rhs by p failed (no witness polynomial): the kernel is not congruent or has an unforeseen shape'

    # hand the identity to the solver: d == P * K with K rebuilt as z3 term
    zv = {str(v): v for v in [z3.Int(n) for n in syms]}
    def from_sympy(p):
        t = z3.IntVal(0)
        for monom, coeff in p.terms():
            m = z3.IntVal(int(coeff))
            for sym, pw in zip(p.gens, monom):
                for _ in range(pw): m = m * zv[str(sym)]
            t = t + m
        return t
    K = from_sympy(quo)
    s = z3.Solver(); s.set('timeout', 120000); s.add(*assumptions); s.add(*cons)
    s.add(z3.Not(d == P * K)); r = s.check()
    return str(r), (None if r == z3.unsat else 'ring identity not confirmed by z3')
