#!/usr/bin/env python3-vt
"""E2 kernel obligations: dryoc's arithmetic kernels, executed symbolically from the MIR dump, against the published
specifications written directly as z3 terms. Usage: kernels.py <mir.txt> <out.json> [kernel ...]"""
import json
import random
import sys
import time

import z3

from mirexec import Exec as _Exec, Ref, Sc, Sl, Unsupported, conc, parse_fns


def Exec(fns, mode):
    return _Exec(fns, mode, abstract_rot=ABSTRACT_ROT[0])

B2_IV = [0x6a09e667f3bcc908, 0xbb67ae8584caa73b, 0x3c6ef372fe94f82b, 0xa54ff53a5f1d36f1, 0x510e527fade682d1, 0x9b05688c2b3e6c1f, 0x1f83d9abfb41bd6b, 0x5be0cd19137e2179]
B2_SIGMA = [[0, 1, 2, 3, 4, 5, 6, 7, 8, 9, 10, 11, 12, 13, 14, 15], [14, 10, 4, 8, 9, 15, 13, 6, 1, 12, 0, 2, 11, 7, 5, 3], [11, 8, 12, 0, 5, 2, 15, 13, 10, 14, 3, 6, 7, 1, 9, 4],
            [7, 9, 3, 1, 13, 12, 11, 14, 2, 6, 5, 10, 4, 0, 15, 8], [9, 0, 5, 7, 2, 4, 10, 15, 14, 1, 11, 12, 6, 8, 3, 13], [2, 12, 6, 10, 0, 11, 8, 3, 4, 13, 7, 5, 15, 14, 1, 9],
            [12, 5, 1, 15, 14, 13, 4, 10, 0, 7, 6, 3, 9, 2, 8, 11], [13, 11, 7, 14, 12, 1, 3, 9, 5, 0, 15, 4, 8, 6, 2, 10], [6, 15, 14, 9, 11, 3, 0, 8, 12, 2, 13, 7, 1, 4, 10, 5],
            [10, 2, 8, 4, 7, 6, 1, 5, 15, 11, 9, 14, 3, 12, 13, 0]]


ABSTRACT_ROT = [False]


class Ops:
    """spec-side word operations, generic over python ints (concrete validation) and z3 bit-vectors"""

    def __init__(self, w, symbolic):
        self.w, self.sym, self.mask = w, symbolic, (1 << w) - 1

    def add(self, a, b):
        return (a + b) if self.sym else ((a + b) & self.mask)

    def rotr(self, x, n):
        return self.rotl(x, (self.w - n) % self.w)

    def rotl(self, x, n):
        if not self.sym:
            return ((x << n) | (x >> (self.w - n))) & self.mask
        if ABSTRACT_ROT[0]:
            from mirexec import rot_uf
            return rot_uf(self.w, n)(x)
        return z3.RotateLeft(x, n)


def le_word(bs, sym, w):
    """little-endian word from byte terms"""
    if sym:
        return z3.simplify(z3.Concat(*reversed(bs)))
    return sum(b << (8 * i) for i, b in enumerate(bs))


def spec_blake2b_compress(h, t, f, block, sym):
    o = Ops(64, sym)
    m = [le_word(block[8 * i:8 * i + 8], sym, 64) for i in range(16)]
    iv = [z3.BitVecVal(x, 64) for x in B2_IV] if sym else list(B2_IV)
    v = list(h) + iv
    v[12] = v[12] ^ t[0]
    v[13] = v[13] ^ t[1]
    v[14] = v[14] ^ f[0]
    v[15] = v[15] ^ f[1]

    def G(a, b, c, d, x, y):
        v[a] = o.add(o.add(v[a], v[b]), x)
        v[d] = o.rotr(v[d] ^ v[a], 32)
        v[c] = o.add(v[c], v[d])
        v[b] = o.rotr(v[b] ^ v[c], 24)
        v[a] = o.add(o.add(v[a], v[b]), y)
        v[d] = o.rotr(v[d] ^ v[a], 16)
        v[c] = o.add(v[c], v[d])
        v[b] = o.rotr(v[b] ^ v[c], 63)
    for r in range(12):
        s = B2_SIGMA[r % 10]
        G(0, 4, 8, 12, m[s[0]], m[s[1]])
        G(1, 5, 9, 13, m[s[2]], m[s[3]])
        G(2, 6, 10, 14, m[s[4]], m[s[5]])
        G(3, 7, 11, 15, m[s[6]], m[s[7]])
        G(0, 5, 10, 15, m[s[8]], m[s[9]])
        G(1, 6, 11, 12, m[s[10]], m[s[11]])
        G(2, 7, 8, 13, m[s[12]], m[s[13]])
        G(3, 4, 9, 14, m[s[14]], m[s[15]])
    return [h[i] ^ v[i] ^ v[i + 8] for i in range(8)]


def spec_siphash24(data, key, sym):
    o = Ops(64, sym)
    k0 = le_word(key[0:8], sym, 64)
    k1 = le_word(key[8:16], sym, 64)
    c = [0x736f6d6570736575, 0x646f72616e646f6d, 0x6c7967656e657261, 0x7465646279746573]
    cv = [z3.BitVecVal(x, 64) for x in c] if sym else c
    v = [cv[0] ^ k0, cv[1] ^ k1, cv[2] ^ k0, cv[3] ^ k1]

    def rnd():
        v[0] = o.add(v[0], v[1]); v[1] = o.rotl(v[1], int(__import__("os").environ.get("E2_BUG_ROT", "13"))); v[1] = v[1] ^ v[0]; v[0] = o.rotl(v[0], 32)
        v[2] = o.add(v[2], v[3]); v[3] = o.rotl(v[3], 16); v[3] = v[3] ^ v[2]
        v[0] = o.add(v[0], v[3]); v[3] = o.rotl(v[3], 21); v[3] = v[3] ^ v[0]
        v[2] = o.add(v[2], v[1]); v[1] = o.rotl(v[1], 17); v[1] = v[1] ^ v[2]; v[2] = o.rotl(v[2], 32)
    n = len(data)
    i = 0
    while i + 8 <= n:
        m = le_word(data[i:i + 8], sym, 64)
        v[3] = v[3] ^ m; rnd(); rnd(); v[0] = v[0] ^ m
        i += 8
    tail = data[i:]
    lenbyte = n & 0xff
    if sym:
        # the reference implementation's form: b = len << 56; b |= in[i] << 8 i
        b = z3.BitVecVal(lenbyte << 56, 64)
        for j, x in enumerate(tail):
            b = b | (z3.ZeroExt(56, x) << (8 * j))
    else:
        b = (lenbyte << 56) | sum(x << (8 * j) for j, x in enumerate(tail))
    v[3] = v[3] ^ b; rnd(); rnd(); v[0] = v[0] ^ b
    v[2] = v[2] ^ (z3.BitVecVal(0xff, 64) if sym else 0xff)
    rnd(); rnd(); rnd(); rnd()
    return v[0] ^ v[1] ^ v[2] ^ v[3]


def spec_hchacha20(key, inp, consts, sym):
    o = Ops(32, sym)
    st = list(consts) + [le_word(key[4 * i:4 * i + 4], sym, 32) for i in range(8)] + [le_word(inp[4 * i:4 * i + 4], sym, 32) for i in range(4)]

    def qr(a, b, c, d):
        st[a] = o.add(st[a], st[b]); st[d] = o.rotl(st[d] ^ st[a], 16)
        st[c] = o.add(st[c], st[d]); st[b] = o.rotl(st[b] ^ st[c], 12)
        st[a] = o.add(st[a], st[b]); st[d] = o.rotl(st[d] ^ st[a], 8)
        st[c] = o.add(st[c], st[d]); st[b] = o.rotl(st[b] ^ st[c], 7)
    for _ in range(10):
        qr(0, 4, 8, 12); qr(1, 5, 9, 13); qr(2, 6, 10, 14); qr(3, 7, 11, 15)
        qr(0, 5, 10, 15); qr(1, 6, 11, 12); qr(2, 7, 8, 13); qr(3, 4, 9, 14)
    return [st[i] for i in (0, 1, 2, 3, 12, 13, 14, 15)]


def spec_hsalsa20(key, inp, consts, sym):
    o = Ops(32, sym)
    kw = [le_word(key[4 * i:4 * i + 4], sym, 32) for i in range(8)]
    iw = [le_word(inp[4 * i:4 * i + 4], sym, 32) for i in range(4)]
    x = [consts[0], kw[0], kw[1], kw[2], kw[3], consts[1], iw[0], iw[1], iw[2], iw[3], consts[2], kw[4], kw[5], kw[6], kw[7], consts[3]]

    def q(a, b, c, n):   # x[a] ^= (x[b] + x[c]) <<< n
        x[a] = x[a] ^ o.rotl(o.add(x[b], x[c]), n)
    for _ in range(10):
        q(4, 0, 12, 7); q(8, 4, 0, 9); q(12, 8, 4, 13); q(0, 12, 8, 18)
        q(9, 5, 1, 7); q(13, 9, 5, 9); q(1, 13, 9, 13); q(5, 1, 13, 18)
        q(14, 10, 6, 7); q(2, 14, 10, 9); q(6, 2, 14, 13); q(10, 6, 2, 18)
        q(3, 15, 11, 7); q(7, 3, 15, 9); q(11, 7, 3, 13); q(15, 11, 7, 18)
        q(1, 0, 3, 7); q(2, 1, 0, 9); q(3, 2, 1, 13); q(0, 3, 2, 18)
        q(6, 5, 4, 7); q(7, 6, 5, 9); q(4, 7, 6, 13); q(5, 4, 7, 18)
        q(11, 10, 9, 7); q(8, 11, 10, 9); q(9, 8, 11, 13); q(10, 9, 8, 18)
        q(12, 15, 14, 7); q(13, 12, 15, 9); q(14, 13, 12, 13); q(15, 14, 13, 18)
    return [x[i] for i in (0, 5, 10, 15, 6, 7, 8, 9)]


# ---------------------------------------------------------------------------------------------------------------------
def symbytes(prefix, n):
    return [z3.BitVec('%s%d' % (prefix, i), 8) for i in range(n)]


def symwords(prefix, nwords, w):
    """word-level symbolic inputs; the byte view is Extracts of the words (little endian), so that the implementation's
    byte loads simplify back to the words and both sides of an equivalence are word-level terms"""
    words = [z3.BitVec('%s%d' % (prefix, i), w) for i in range(nwords)]
    bs = []
    for x in words:
        for j in range(w // 8):
            bs.append(z3.Extract(8 * j + 7, 8 * j, x))
    return words, bs


def sc_list(terms, w):
    return [Sc(w, t=t) for t in terms]


def words_of_bytes(bs, w):
    """impl output bytes (list of Sc 8-bit) -> list of z3 words (little endian)"""
    out = []
    n = w // 8
    for i in range(0, len(bs), n):
        parts = [(b.t if b.t is not None else z3.BitVecVal(b.c, 8)) for b in bs[i:i + n]]
        out.append(z3.simplify(z3.Concat(*reversed(parts))))
    return out


def byte_pairs(out_bytes, spec_words, w):
    """(impl byte, spec byte) pairs: spec byte j of a word is Extract(8j+7, 8j, word)"""
    pairs = []
    n = w // 8
    for i, b in enumerate(out_bytes):
        sw = spec_words[i // n]
        j = i % n
        pairs.append((term(b), z3.Extract(8 * j + 7, 8 * j, sw)))
    return pairs


def term(v):
    return v.t if v.t is not None else z3.BitVecVal(v.c, v.w)


SMT_DIR = [None]


def crosscheck(solver, name):
    """second opinion from the system z3 4.8.12 on the same SMT-LIB query (the Python bindings are z3 5.1)"""
    import os, subprocess
    d = os.environ.get('E2_SMT_DIR')
    if not d:
        return None
    path = os.path.join(d, name.replace('/', '_') + '.smt2')
    with open(path, 'w') as f:
        f.write('(set-logic ALL)\n' + solver.to_smt2())
    try:
        out = subprocess.run(['/usr/bin/z3', '-T:60', path], capture_output=True, text=True, timeout=90).stdout
    except subprocess.TimeoutExpired:
        return 'timeout'
    if '(error' in out:
        return 'error'
    first = out.strip().split('\n')[0] if out.strip() else 'none'
    return first if first in ('sat', 'unsat', 'unknown', 'timeout') else 'none'


class Result:
    def __init__(self):
        self.items = []
        self.notes = []

    def note(self, name, text):
        self.notes.append((name, text))
        print('[e2] note %s: %s' % (name, text), flush=True)

    def add(self, name, status, secs, desc, solver='z3 5.1.0 (python)', model=None, error=None, functions=None, cross=None):
        if cross is not None:
            solver += '; z3 4.8.12: ' + cross
            if status == 'unsat' and cross == 'sat':
                status, error = 'disagree', 'solvers disagree'
        self.items.append(dict(name=name, status=status, secs=round(secs, 2), desc=desc, solver=solver, model=model, error=error, functions=functions or []))
        print('[e2] %-44s %-8s %6.2fs %s' % (name, status, secs, (error or '')[:120]), flush=True)


def prove_equal(res, name, desc, pairs, ex, timeout_ms=None, extra_obls=True, model_vars=None, functions=None):
    """each (impl, spec) pair must be equal for all inputs; the executor's own obligations (index bounds, shifts) must hold too"""
    t0 = time.time()
    s = z3.Solver()
    s.set('timeout', timeout_ms or (20000 if ABSTRACT_ROT[0] else 90000))
    goal = z3.Or([i != sp for i, sp in pairs]) if pairs else z3.BoolVal(False)
    s.add(goal)
    r = s.check()
    st = str(r)
    model = None
    note = None
    if r == z3.unknown and model_vars:
        # counterexample search in sub-spaces: the same query with some input groups pinned to (seeded) constants. A model of
        # the pinned query is a model of the full query; 'unsat' here proves nothing and leaves the verdict 'unknown'.
        rnd = random.Random(12345)
        groups = list(model_vars)
        s.set('timeout', 20000)
        for attempt in range(4 if not ABSTRACT_ROT[0] else 0):
            pinned = groups if attempt < 3 or len(groups) < 2 else groups[1:]
            s.push()
            for g in pinned:
                for x in model_vars[g]:
                    s.add(x == z3.BitVecVal(rnd.getrandbits(x.size()), x.size()))
            r2 = s.check()
            if r2 == z3.sat:
                r, st = r2, 'sat'
                m = s.model()
                model = {k: [m.eval(x, model_completion=True).as_long() for x in v] for k, v in model_vars.items()}
                note = 'model found in a sub-space with %s pinned to constants' % ', '.join(pinned)
                s.pop()
                break
            s.pop()
    if r == z3.sat and model_vars and model is None:
        m = s.model()
        model = {k: [m.eval(x, model_completion=True).as_long() for x in v] for k, v in model_vars.items()}
    res.add(name, st, time.time() - t0, desc, model=model, error=(s.reason_unknown() if st == 'unknown' else note), functions=functions or sorted(ex.called),
            cross=(crosscheck(s, name) if st == 'unsat' else None))
    if extra_obls:
        t0 = time.time()
        bad = None
        for d, ok in ex.obls:
            s2 = z3.Solver()
            s2.set('timeout', 20000)
            s2.add(z3.Not(ok))
            if s2.check() != z3.unsat:
                bad = d
                break
        res.add(name + '.panic_free', 'unsat' if bad is None else 'sat', time.time() - t0,
                '%d compiler-inserted checks (overflow / shift range / index bounds) with symbolic conditions hold for all inputs' % len(ex.obls), error=bad)


def k_blake2b_compress(fns, res, validate=True):
    name = 'blake2b_compress'

    def run(h, t, f, block, mode):
        ex = Exec(fns, 'BV')
        box = {'h': h, 't': t, 'f': f}
        k = ex.resolve('compress')
        ex.run(k, [Ref(box, 'h'), Ref(box, 't'), Ref(box, 'f'), Sl(block, 0, 128)])
        return ex, box['h']
    if validate:
        rnd = random.Random(7)
        for _ in range(3):
            h = [rnd.getrandbits(64) for _ in range(8)]; t = [rnd.getrandbits(64), 0]; f = [rnd.choice([0, (1 << 64) - 1]), 0]; blk = [rnd.getrandbits(8) for _ in range(128)]
            ex, out = run([conc(x, 64) for x in h], [conc(x, 64) for x in t], [conc(x, 64) for x in f], [conc(x, 8) for x in blk], 'c')
            want = spec_blake2b_compress(h, t, f, blk, False)
            if [o.c for o in out] != want:
                res.note(name, 'concrete run of the MIR executor disagrees with the reference on a random input (implementation fault or encoder fault: decided by the symbolic query + native replay)')
        # end-to-end sanity of the reference against hashlib (one block, unkeyed, 64-byte digest)
        import hashlib
        msg = bytes(range(100))
        h0 = list(B2_IV); h0[0] ^= 0x01010040
        out = spec_blake2b_compress(h0, [100, 0], [(1 << 64) - 1, 0], list(msg) + [0] * 28, False)
        if b''.join(x.to_bytes(8, 'little') for x in out) != hashlib.blake2b(msg).digest():
            res.add(name + '.reference_selftest', 'error', 0, 'reference transcription disagrees with hashlib.blake2b', error='reference broken')
            return
    hs = [z3.BitVec('h%d' % i, 64) for i in range(8)]
    ts = [z3.BitVec('t%d' % i, 64) for i in range(2)]
    fs = [z3.BitVec('f%d' % i, 64) for i in range(2)]
    mw, bs = symwords('m', 16, 64)
    t0 = time.time()
    ex, out = run(sc_list(hs, 64), sc_list(ts, 64), sc_list(fs, 64), sc_list(bs, 8), 's')
    spec = spec_blake2b_compress(hs, ts, fs, bs, True)
    prove_equal(res, name, 'BLAKE2b compress (12 rounds) == RFC 7693 F for every chaining value, counter, flags and 128-byte block',
                [(term(o), sp) for o, sp in zip(out, spec)], ex, model_vars={'h': hs, 't': ts, 'f': fs, 'block_words': mw})


def k_siphash(fns, res, lens):
    for n in lens:
        name = 'siphash24_len%d' % n

        def run(data, key):
            ex = Exec(fns, 'BV')
            box = {'out': [conc(0, 8) for _ in range(8)], 'key': key}
            k = ex.resolve('siphash24')
            ex.run(k, [Ref(box, 'out'), Sl(data, 0, len(data)), Ref(box, 'key')])
            return ex, box['out']
        rnd = random.Random(n)
        data = [rnd.getrandbits(8) for _ in range(n)]; key = [rnd.getrandbits(8) for _ in range(16)]
        ex, out = run([conc(x, 8) for x in data], [conc(x, 8) for x in key])
        want = spec_siphash24(data, key, False)
        if sum(o.c << (8 * i) for i, o in enumerate(out)) != want:
            res.note(name, 'concrete run of the MIR executor disagrees with the reference on a random input')
        dw, ds = symwords('d', n // 8, 64)
        ds = ds + symbytes('tail', n % 8)
        kw, ks = symwords('k', 2, 64)
        ex, out = run(sc_list(ds, 8), sc_list(ks, 8))
        spec = spec_siphash24(ds, ks, True)
        prove_equal(res, name, 'SipHash-2-4 of every %d-byte input under every 16-byte key == the published algorithm' % n,
                    byte_pairs(out, [spec], 64), ex, model_vars={'data_words': dw, 'key_words': kw})


SIP_VECTOR0 = 0x726fdb47dd0e0e31   # paper's test vector: key 00..0f, empty input


def k_hcore(fns, res, which):
    name = which
    fn = 'crypto_core_' + which
    spec = spec_hchacha20 if which == 'hchacha20' else spec_hsalsa20
    default = [0x61707865, 0x3320646e, 0x79622d32, 0x6b206574]

    def run(key, inp, consts):
        from mirexec import Opt
        ex = Exec(fns, 'BV')
        box = {'out': [conc(0, 8) for _ in range(32)], 'in': inp, 'key': key}
        k = ex.resolve(fn)
        c = Opt(False) if consts is None else Opt(True, list(consts))
        ex.run(k, [Ref(box, 'out'), Ref(box, 'in'), Ref(box, 'key'), c])
        return ex, box['out']
    rnd = random.Random(11)
    key = [rnd.getrandbits(8) for _ in range(32)]; inp = [rnd.getrandbits(8) for _ in range(16)]
    ex, out = run([conc(x, 8) for x in key], [conc(x, 8) for x in inp], None)
    want = spec(key, inp, default, False)
    got = [sum(out[4 * i + j].c << (8 * j) for j in range(4)) for i in range(8)]
    if got != want:
        res.note(name, 'concrete run of the MIR executor disagrees with the reference on a random input')
    kw, ks = symwords('k', 8, 32)
    iw, ins = symwords('i', 4, 32)
    ex, out = run(sc_list(ks, 8), sc_list(ins, 8), None)
    sp = spec(ks, ins, [z3.BitVecVal(x, 32) for x in default], True)
    prove_equal(res, name, '%s == its specification for every key and input (default constants)' % which,
                byte_pairs(out, sp, 32), ex, model_vars={'key_words': kw, 'input_words': iw})
    cs = [z3.BitVec('c%d' % i, 32) for i in range(4)]
    ex, out = run(sc_list(ks, 8), sc_list(ins, 8), sc_list(cs, 32))
    sp = spec(ks, ins, cs, True)
    prove_equal(res, name + '_custom_constants', '%s with caller-supplied constants == its specification' % which,
                byte_pairs(out, sp, 32), ex, model_vars={'key_words': kw, 'input_words': iw, 'consts': cs})


def k_increment(fns, res):
    for n in (4, 8, 12):
        name = 'increment_bytes_%d' % n
        bs = symbytes('b', n)
        ex = Exec(fns, 'BV')
        data = sc_list(bs, 8)
        k = ex.resolve('increment_bytes')
        ex.run(k, [Sl(data, 0, n)])
        impl = z3.Concat(*reversed([term(d) for d in data]))
        spec = z3.Concat(*reversed(bs)) + 1
        prove_equal(res, name, 'little-endian increment of a %d-byte counter == +1 mod 2^%d' % (n, 8 * n), [(impl, spec)], ex, model_vars={'bytes': bs})


def main():
    mir, outp = sys.argv[1], sys.argv[2]
    import os
    os.environ['E2_SMT_DIR'] = os.path.join(os.path.dirname(os.path.abspath(outp)), 'smt2')
    os.makedirs(os.environ['E2_SMT_DIR'], exist_ok=True)
    which = sys.argv[3:] or ['blake2b', 'siphash', 'hchacha20', 'hsalsa20', 'increment', 'poly1305']
    fns = parse_fns(open(mir).read())
    res = Result()
    for w in which:
        # stage 1: rotations as uninterpreted functions (sound abstraction: equal under every interpretation => equal);
        # stage 2 (only if stage 1 does not prove it): real rotation semantics, where a model is a genuine counterexample
        for stage, abstract in ((1, True), (2, False)):
            if w in ('poly1305', 'increment') and abstract:
                continue
            ABSTRACT_ROT[0] = abstract
            tmp = Result()
            try:
                if w == 'blake2b':
                    k_blake2b_compress(fns, tmp)
                elif w.startswith('siphash'):
                    lens = [int(x) for x in w.split(':')[1].split(',')] if ':' in w else [0, 1, 7, 8, 9, 15, 16, 17]
                    k_siphash(fns, tmp, lens)
                elif w in ('hchacha20', 'hsalsa20'):
                    k_hcore(fns, tmp, w)
                elif w == 'increment':
                    k_increment(fns, tmp)
                elif w == 'poly1305':
                    import poly
                    poly.run(fns, tmp)
                elif w == 'argon2':
                    import argon
                    sys.modules.setdefault('kernels', sys.modules['__main__'])
                    argon.run(fns, tmp)
            except Unsupported as e:
                tmp.add(w, 'error', 0, 'MIR construct outside the executor: the kernel was refactored beyond what E2 encodes', error='Unsupported: %s' % e)
            except Exception as e:
                import traceback
                traceback.print_exc()
                tmp.add(w, 'error', 0, '', error=repr(e))
            ok = all(i['status'] == 'unsat' for i in tmp.items)
            if ok or not abstract:
                for i in tmp.items:
                    i['desc'] += ' [rotations abstracted as uninterpreted functions]' if abstract else ''
                res.items += tmp.items
                break
            print('[e2] %s: abstraction stage inconclusive, retrying with concrete rotation semantics' % w, flush=True)
    json.dump(res.items, open(outp, 'w'), indent=1)


if __name__ == '__main__':
    main()
