#!/bin/bash
# usage: verify_seed.sh Cxx n   -- confirms a sub-agent's seeded change in its scratch worktree /tmp/wt-Cxx
# (suite passes with the change, demo fails with it, demo passes without it), then stores it under /verif/seeded/.
P=$1; N=$2; WT=/tmp/wt-$P; OUT=/tmp/out-$P/$N
export CARGO_TARGET_DIR=$WT/target CARGO_NET_OFFLINE=true
cd $WT || exit 9
git checkout -q -- . ; rm -f tests/demo_*.rs
FEAT=""
grep -q "serde\|base64" $OUT/notes.md 2>/dev/null && FEAT="--features serde,base64"
[ -n "$3" ] && FEAT="$3"
TC="$4"
git apply $OUT/patch.diff || { echo "PATCH DOES NOT APPLY"; exit 1; }
SUITE=$(cargo test --offline -j 8 2>&1 | grep "^test result" | awk '{p+=$4; f+=$6} END {print p" passed "f" failed"}')
cp $OUT/demo.rs tests/demo_$N.rs
WITH=$(cargo $TC test --offline -j 8 $FEAT --test demo_$N 2>&1 | grep "^test result" | tail -1)
git checkout -q -- .
WITHOUT=$(cargo $TC test --offline -j 8 $FEAT --test demo_$N 2>&1 | grep "^test result" | tail -1)
rm -f tests/demo_$N.rs
echo "suite(with change): $SUITE"; echo "demo with change: $WITH"; echo "demo without change: $WITHOUT"
if echo "$SUITE" | grep -q " 0 failed" && echo "$WITH" | grep -q "FAILED" && echo "$WITHOUT" | grep -q "test result: ok"; then
  D=/verif/seeded/$P-$N; mkdir -p $D; cp $OUT/patch.diff $OUT/demo.rs $D/; cp $OUT/notes.md $D/agent_notes.md
  echo "CONFIRMED -> $D"
else
  echo "NOT CONFIRMED"
fi
