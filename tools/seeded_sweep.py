#!/usr/bin/env python3
"""Runs registered checks against every seeded change (tools/run_seeded.sh: apply to /repo, snapshot, undo) and
writes seeded/<id>/meta.json. usage: seeded_sweep.py [-P n] [seed ids...]"""
import json, os, re, subprocess, sys, time
from concurrent.futures import ThreadPoolExecutor

V = "/verif"
# seed -> [(check, extra args)]; the property's own quick check first, then other checks expected to see it
PLAN = {
    "C01-1": [("C01", [])], "C01-2": [("C01", []), ("C07", [])],
    "C02-1": [("C02", []), ("C03", [])], "C02-2": [("C02", [])],
    "C03-1": [("C03", [])], "C03-2": [("C03", [])],
    "C04-1": [("C04", [])], "C04-2": [("C04", [])],
    "C05-1": [("C05", [])], "C05-2": [("C05", [])],
    "C06-1": [("C06", [])], "C06-2": [("C06", [])],
    "C07-1": [("C07", [])], "C07-2": [("C07", [])],
    "C08-1": [("C08", [])], "C08-2": [("C08", [])],
    "C09-1": [("C09", [])], "C09-2": [("C09", [])],
    "C11-1": [("C11", [])], "C11-2": [("C11", [])],
    "C12-1": [("C12", [])], "C12-2": [("C12", [])],
    "C13-1": [("C13", [])], "C13-2": [("C13", [])],
    "C14-1": [("C14", [])], "C14-2": [("C14", []), ("C19", [])],
    "C15-1": [("C15", [])], "C15-2": [("C15", [])],
    "C16-1": [("C16", [])], "C16-2": [("C16", [])],
    "C17-1": [("C17", [])], "C17-2": [("C17", [])],
    "C19-1": [("C19", [])], "C19-2": [("C19", [])],
    # third round (one change per property)
    "C05-3": [("C05", [])], "C10-3": [("C10", [])], "C12-3": [("C12", [])], "C13-3": [("C13", [])],
    "C14-3": [("C14", [])], "C16-3": [("C16", [])],
    # fourth round
    "C10-4": [("C10", [])], "C11-4": [("C11", [])], "C15-4": [("C15", [])], "C19-4": [("C19", [])],
}


def section(text, head):
    m = re.search(r"(?ms)^##\s*%s.*?\n(.*?)(?=^## |\Z)" % head, text)
    return re.sub(r"\s+", " ", m.group(1)).strip()[:1500] if m else ""


def run(job):
    seed, check, args = job
    t0 = time.time()
    env = dict(os.environ, VERIF_JOBS=os.environ.get("SWEEP_JOBS", "6"))
    subprocess.run([os.path.join(V, "tools", "run_seeded.sh"), seed, check] + args, env=env, capture_output=True, text=True)
    out = open("/tmp/seeded-%s-%s.out" % (seed, check)).read()
    viol = re.findall(r"^VIOLATION property=(\S+) replay=(\S+)", out, re.M)
    inc = re.findall(r"^INCONCLUSIVE (\S+?): (.{0,160})", out, re.M)
    fails = re.findall(r"^\[verif\]\s+(?:e2 )?(\S+)\s+(fail|sat)\b", out, re.M)
    verdict = "caught" if viol else ("inconclusive" if inc else "missed")
    return seed, {"check": "./check %s %s" % (check, " ".join(args)), "verdict": verdict, "violation_lines": len(viol),
                  "failing_queries": sorted(set(f[0] for f in fails if "twin" not in f[0]))[:12], "inconclusive": [list(i) for i in inc[:4]], "wall_s": round(time.time() - t0)}


def main():
    P = 3
    a = sys.argv[1:]
    if a and a[0] == "-P":
        P = int(a[1]); a = a[2:]
    seeds = a or sorted(PLAN)
    jobs = [(s, c, x) for s in seeds for c, x in PLAN[s]]
    # never run the same check twice at once (the runs would share /verif/logs/<check>-seeded): with P workers taking jobs
    # in order, put jobs of the same check at least P positions apart
    jobs.sort(key=lambda j: j[0][-1] + j[1])
    res = {}
    with ThreadPoolExecutor(P) as ex:
        for seed, r in ex.map(run, jobs):
            res.setdefault(seed, []).append(r)
            print(seed, r["check"], r["verdict"], r["failing_queries"][:3], flush=True)
    for seed, runs in res.items():
        d = os.path.join(V, "seeded", seed)
        notes = open(os.path.join(d, "agent_notes.md")).read() if os.path.exists(os.path.join(d, "agent_notes.md")) else ""
        title = (notes.splitlines() or [""])[0].lstrip("# ").strip()
        mp = os.path.join(d, "meta.json")
        meta = json.load(open(mp)) if os.path.exists(mp) else {}
        meta.update({"id": seed, "property": seed.split("-")[0], "title": title, "what_it_changes": section(notes, "What the change does"),
                     "needs_to_manifest": section(notes, "What is needed for it to manifest") or meta.get("needs_to_manifest", ""),
                     "confirmed_by_me": "demo.rs fails with the patch applied and passes without it (tools/verify_seed.sh), existing suite passes with it",
                     "applied_with": "git -C /repo apply seeded/%s/patch.diff (undone with git apply -R right after the check has snapshotted /repo)" % seed,
                     "runs": runs, "caught": any(r["verdict"] == "caught" for r in runs),
                     "date": time.strftime("%Y-%m-%d")})
        json.dump(meta, open(mp, "w"), indent=1)


main()
