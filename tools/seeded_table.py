#!/usr/bin/env python3
"""prints the DESIGN.md 9.5 table from seeded/*/meta.json"""
import glob, json, os
rows = []
for mp in sorted(glob.glob("/verif/seeded/*/meta.json")):
    m = json.load(open(mp))
    runs = m.get("runs", [])
    res = []
    for r in runs:
        q = ", ".join(r.get("failing_queries", [])[:3])
        res.append("%s: %s%s" % (r["check"].replace("./check ", "").strip(), r["verdict"].upper(), (" (" + q + ")") if q and r["verdict"] == "caught" else ""))
    title = m.get("title", "").split(" - ", 1)[-1].split(" – ", 1)[-1]
    note = m.get("note", "")
    rows.append("| %s | %s | %s%s |" % (m["id"], title[:150], "; ".join(res), (" - " + note) if note else ""))
print("| seed | change | result of the registered quick checks |\n|---|---|---|")
print("\n".join(rows))
