#!/usr/bin/env python3
"""prints the as-built per-property summary (DESIGN.md 9.7) from evidence/*.json"""
import glob, json
print("| property | Kani/CBMC harnesses decided | MIR->SMT obligations | CBMC properties discharged | wall s | symex s | solver s |\n|---|---|---|---|---|---|---|")
for p in sorted(glob.glob("/verif/evidence/C*.json")):
    d = json.load(open(p)); c = d["coverage"]
    qs = c.get("queries", []); e2 = c.get("smt_obligations", [])
    print("| %s (%s) | %d | %d | %s | %.0f | %s | %s |" % (d["property_id"], d["tier"], len(qs), len(e2), c.get("discharged"), d["wall_s"], c.get("symex_secs_total", "-"), c.get("solver_secs_total")))
