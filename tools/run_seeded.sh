#!/bin/bash
# usage: run_seeded.sh <seeded dir name> <check id> [extra check args]   -- applies the seeded patch to /repo, runs the check, undoes it
S=$1; C=$2; shift 2
cd /verif
git -C /repo apply /verif/seeded/$S/patch.diff || { echo "PATCH DOES NOT APPLY"; exit 9; }
./check $C "$@" > /tmp/seeded-$S-$C.out 2>&1; RC=$?
git -C /repo checkout -- .
echo "seeded=$S check=$C rc=$RC"; grep "^VIOLATION\|^KNOWN\|^INCONCLUSIVE" /tmp/seeded-$S-$C.out | head -5
