#!/bin/bash
# usage: run_seeded.sh <seeded dir name> <check id> [extra check args]
# applies the seeded patch to /repo, starts the check (which snapshots /repo into its scratch dir first), undoes the patch, waits.
S=$1; C=$2; shift 2
cd /verif
while [ -e /tmp/verif-repo-patched.lock ]; do sleep 1; done
touch /tmp/verif-repo-patched.lock
git -C /repo apply /verif/seeded/$S/patch.diff || { rm -f /tmp/verif-repo-patched.lock; false; } || { echo "seeded=$S check=$C PATCH DOES NOT APPLY"; exit 9; }
VERIF_IGNORE_LOCK=1 VERIF_EVIDENCE_DIR=/tmp/seeded-evidence VERIF_LOG_SUFFIX=-seeded ./check $C "$@" > /tmp/seeded-$S-$C.out 2>&1 &
PID=$!
sleep 10
git -C /repo apply -R /verif/seeded/$S/patch.diff || echo "WARNING: could not reverse seeded patch $S"
rm -f /tmp/verif-repo-patched.lock
wait $PID; RC=$?
echo "seeded=$S check=$C rc=$RC $(grep -c '^VIOLATION' /tmp/seeded-$S-$C.out) violations; first: $(grep '^VIOLATION' /tmp/seeded-$S-$C.out | head -2 | tr '\n' ' ')"
grep "^INCONCLUSIVE" /tmp/seeded-$S-$C.out | head -2
