"""check driver: build suites, run queries, classify, replay, evidence, exit code."""
import hashlib
import importlib
import json
import os
import shutil
import subprocess
import sys
import time

from . import engine
from .engine import VERIF, log

KNOWN_FILE = os.path.join(VERIF, "known_findings.json")


def load_known():
    if not os.path.exists(KNOWN_FILE):
        return []
    return json.load(open(KNOWN_FILE)).get("findings", [])


def role_of(failure, harness_result):
    """Stable key of a failed CBMC property: harness assertions carry 'ROLE: text'."""
    d = failure["desc"].strip().strip('"')
    if d.startswith("assertion failed: "):
        d = d[len("assertion failed: "):]
    if "verif_harness" in failure["id"] and ":" in d:
        head = d.split(":", 1)[0].strip()
        if head and all(c.isalnum() or c in "_-" for c in head):
            return head
    # a failure inside the code under test (panic, overflow, OOB ...): key by function + kind
    fn = (failure.get("fn") or failure["id"].rsplit(".", 2)[0])
    kind = "panic" if "placeholder message" in d else d.split(":")[0][:60]
    return "%s@%s" % (kind.strip().replace(" ", "_"), fn.replace(" ", ""))


def native_crate(scratch, name, main_rs, features=(), extra_deps=""):
    d = os.path.join(scratch.dir, "replay-" + name)
    os.makedirs(os.path.join(d, "src"), exist_ok=True)
    feats = ", ".join('"%s"' % f for f in features)
    with open(os.path.join(d, "Cargo.toml"), "w") as f:
        f.write('[package]\nname = "replay"\nversion = "0.0.0"\nedition = "2021"\n\n[workspace]\n\n'
                '[dependencies]\ndryoc = { path = "../repo", features = [%s] }\n%s\n'
                '[profile.release]\ndebug-assertions = false\noverflow-checks = false\n' % (feats, extra_deps))
    shutil.copy(os.path.join(scratch.repo, "Cargo.lock"), os.path.join(d, "Cargo.lock"))
    with open(os.path.join(d, "src", "main.rs"), "w") as f:
        f.write(main_rs)
    return d


def native_run(scratch, name, main_rs, features=(), nightly=False, profiles=("dev", "release"),
               extra_deps="", env_extra=None, timeout=900, run_env=None):
    """Build and run a replay program against the scratch copy of the real crate.
    Returns list of (profile, rc, output)."""
    d = native_crate(scratch, name, main_rs, features, extra_deps)
    env = dict(os.environ)
    env["CARGO_NET_OFFLINE"] = "true"
    env["CARGO_TARGET_DIR"] = os.path.join(scratch.dir, "target-replay" + ("-nightly" if nightly else ""))
    if env_extra:
        env.update(env_extra)
    outs = []
    for prof in profiles:
        cmd = ["cargo"] + (["+nightly"] if nightly else []) + ["build", "--offline", "-q"] + \
              (["--release"] if prof == "release" else [])
        try:
            b = subprocess.run(cmd, cwd=d, env=env, capture_output=True, text=True, timeout=timeout)
            if b.returncode != 0:
                outs.append((prof, -100, "replay build failed: " + b.stderr[-1500:]))
                continue
            exe = os.path.join(env["CARGO_TARGET_DIR"], "release" if prof == "release" else "debug", "replay")
            renv = dict(env)
            if run_env:
                renv.update(run_env)
            r = subprocess.run([exe], cwd=d, env=renv, capture_output=True, text=True, timeout=timeout)
            outs.append((prof, r.returncode, r.stdout[-3000:] + ("" if r.returncode in (0, 1) else r.stderr[-1500:])))
        except subprocess.TimeoutExpired:
            outs.append((prof, -9, "timeout"))
    return outs


def rust_bytes(b):
    return "[" + ", ".join(str(x) for x in b) + "]"


class Outcome:
    def __init__(self):
        self.violations = []   # dicts: role, site, what, replay path
        self.known = []
        self.inconclusive = []
        self.queries = []      # harness results
        self.e2 = []           # smt obligations


def save_replay(prop, name, payload):
    d = os.path.join(VERIF, "replays", prop)
    os.makedirs(d, exist_ok=True)
    p = os.path.join(d, name + ".json")
    with open(p, "w") as f:
        json.dump(payload, f, indent=1)
    return p


def main(argv):
    import argparse
    ap = argparse.ArgumentParser()
    ap.add_argument("prop")
    ap.add_argument("--tier", default=os.environ.get("VERIF_TIER", "quick"), choices=["quick", "thorough"])
    ap.add_argument("--only", default=None, help="regex: run only matching harnesses (debug; no evidence written)")
    ap.add_argument("--replay", default=None)
    ap.add_argument("--list", action="store_true")
    a = ap.parse_args(argv)
    seed = int(os.environ.get("VERIF_SEED", "0") or 0)
    prop = a.prop.upper()
    mod = importlib.import_module("props." + prop.lower())
    t0 = time.time()
    if a.replay:
        return mod.replay_file(a.replay)
    scratch = engine.Scratch(prop)
    logdir = os.path.join(VERIF, "logs", prop + os.environ.get("VERIF_LOG_SUFFIX", ""))
    shutil.rmtree(logdir, ignore_errors=True)
    os.makedirs(logdir, exist_ok=True)
    out = Outcome()
    known = [k for k in load_known() if k.get("property") == prop and k.get("status", "open") == "open"]
    rc = 0
    try:
        suites = mod.suites(a.tier, seed)
        if a.list:
            for s in suites:
                for h in s.harnesses:
                    print(h.name, h.site, h.desc)
            return 0
        import re
        build_secs = 0.0
        # E2 (MIR -> SMT) obligations run in a thread alongside the Kani/CBMC suites (single-threaded python + z3)
        e2thread, e2box = None, {}
        if hasattr(mod, "e2") and not a.only:
            import threading

            def _e2():
                try:
                    e2box["res"] = mod.e2(a.tier, seed, scratch, os.path.join(logdir, "e2"))
                except Exception as e:  # encoder failure is never a violation
                    import traceback
                    traceback.print_exc()
                    e2box["res"] = [{"name": "e2", "status": "error", "error": repr(e)}]
            e2thread = threading.Thread(target=_e2)
            e2thread.start()
        if a.only and not any(re.search(a.only, h.name) for s in suites for h in s.harnesses):
            print("INCONCLUSIVE --only %r matches no harness of %s (%s tier)" % (a.only, prop, a.tier))
            return 2
        for s in suites:
            if a.only:
                s.harnesses = [h for h in s.harnesses if re.search(a.only, h.name)]
                if not s.harnesses:
                    continue
            try:
                results, bs = engine.run_suite(s, scratch, os.path.join(logdir, s.tag if hasattr(s, "tag") else "e1"))
            except engine.BuildError as e:
                log("BUILD ERROR:", e, "log:", e.logfile)
                out.inconclusive.append({"what": "build", "error": str(e)})
                continue
            build_secs += bs
            for r in results:
                r["suite"] = getattr(s, "tag", "e1")
                out.queries.append(r)
                h = next(h for h in s.harnesses if h.name == r["harness"])
                if r["status"] in ("timeout", "error", "inconclusive"):
                    out.inconclusive.append({"what": r["harness"], "error": r.get("error", r["status"])})
                    continue
                if h.expect == "fail":
                    if r["status"] != "fail":
                        out.inconclusive.append({"what": r["harness"], "error": "vacuity twin was not violated"})
                    continue
                if r["status"] == "pass" and h.needs_cover and (not r["covers"] or not all(r["covers"].values())):
                    missing = [k for k, v in r["covers"].items() if not v] or ["<no cover property>"]
                    out.inconclusive.append({"what": r["harness"], "error": "cover not satisfied: %s" % missing[:3]})
                    continue
                if r["status"] == "fail":
                    seen = set()
                    for f in r["failures"]:
                        role = role_of(f, r)
                        if (role, h.site) in seen:
                            continue
                        seen.add((role, h.site))
                        finding = {"property": prop, "site": h.site, "role": role, "harness": h.name,
                                   "desc": f["desc"], "where": "%s:%s" % (f.get("file"), f.get("line")),
                                   "witness": r.get("witness", {})}
                        k = next((k for k in known if k["role"] == role and k["site"] in (h.site, "*")), None)
                        if k:
                            finding["known"] = k
                            out.known.append(finding)
                        else:
                            out.violations.append(finding)
        # E2 (MIR -> SMT) obligations, if the property has any
        if e2thread is not None:
            e2thread.join()
            e2res = e2box.get("res") or [{"name": "e2", "status": "error", "error": "E2 thread produced no result"}]
            for o in e2res:
                out.e2.append(o)
                if o["status"] == "unsat":
                    continue
                if o["status"] == "sat":
                    finding = {"property": prop, "site": o.get("site", "e2"), "role": o.get("role", o["name"]),
                               "harness": o["name"], "desc": o.get("desc", ""), "witness": o.get("model", {}), "e2": True}
                    k = next((k for k in known if k["role"] == finding["role"] and k["site"] in (finding["site"], "*")), None)
                    if k:
                        finding["known"] = k
                        out.known.append(finding)
                    else:
                        out.violations.append(finding)
                else:
                    out.inconclusive.append({"what": o["name"], "error": o.get("error", o["status"])})
        # replay every unlisted violation natively before reporting it
        confirmed = []
        for v in out.violations:
            try:
                ok, detail = mod.replay(v, scratch)
            except Exception as e:
                import traceback
                traceback.print_exc()
                ok, detail = None, "replay machinery failed: %r" % (e,)
            v["replay_detail"] = detail
            if ok:
                name = hashlib.sha1(("%s|%s|%s" % (v["site"], v["role"], v["harness"])).encode()).hexdigest()[:10]
                v["replay"] = save_replay(prop, "%s-%s" % (v["harness"], name),
                                          {k: v[k] for k in v if k != "known"})
                confirmed.append(v)
            else:
                out.inconclusive.append({"what": v["harness"], "error": "counterexample did not reproduce natively "
                                         "(suspected encoding/stub error): %s" % (detail,)})
        for k in out.known:
            print("KNOWN-FINDING: property=%s site=%s role=%s %s" % (prop, k["site"], k["role"], k["known"].get("what", "")))
        for v in confirmed:
            print("VIOLATION property=%s replay=%s" % (prop, v["replay"]))
            print("  site=%s role=%s harness=%s :: %s" % (v["site"], v["role"], v["harness"], v["desc"][:200]))
        if confirmed:
            rc = 1
        elif out.inconclusive:
            rc = 2
            for i in out.inconclusive:
                print("INCONCLUSIVE %s: %s" % (i["what"], str(i["error"])[:300]))
        if not a.only:
            write_evidence(prop, a.tier, seed, mod, suites, out, confirmed, time.time() - t0, build_secs)
        sys.stdout.flush()
        return rc
    finally:
        scratch.close()


def write_evidence(prop, tier, seed, mod, suites, out, confirmed, wall, build_secs):
    qs = out.queries
    decided = [q for q in qs if q["status"] in ("pass", "fail")]
    nontrivial = [q for q in decided if q["expect"] == "pass" and q["covers"] and all(q["covers"].values())]
    e2ok = [o for o in out.e2 if o["status"] in ("unsat", "sat")]
    samples = []
    for q in qs[:6]:
        samples.append({"harness": q["harness"], "site": q["site"], "what": q["desc"], "bounds": q["bounds"],
                        "verdict": q["status"], "cbmc_properties": q["nprops"], "sat_vars_clauses": q.get("vars_clauses"),
                        "solver_secs": q.get("sat_secs"), "covers": q["covers"]})
    for o in out.e2[:6]:
        samples.append({"smt_obligation": o["name"], "verdict": o["status"], "solver": o.get("solver"),
                        "secs": o.get("secs"), "what": o.get("desc", "")})
    cov = {
        "evaluations": len(decided) + len(e2ok),
        "distinct_nontrivial": len({q["harness"] for q in nontrivial}) + len({o["name"] for o in e2ok}),
        "rule": "one evaluation = one solver query family decided (a Kani/CBMC harness instance with all its CBMC properties, "
                "or one SMT obligation); non-trivial = distinct harness whose reachability cover(s) were satisfied by the solver "
                "(so the assertions were reached on a feasible path), or a distinct SMT obligation that returned unsat/sat",
        "samples": samples,
        "obligations": sum(q["nprops"] for q in decided) + len(out.e2),
        "discharged": sum(q["nprops"] - len(q["failures"]) for q in decided) + len([o for o in out.e2 if o["status"] == "unsat"]),
        "queries": [{"harness": q["harness"], "site": q["site"], "verdict": q["status"], "expect": q["expect"],
                     "bounds": q["bounds"], "cbmc_properties": q["nprops"], "failed": [f["desc"][:120] for f in q["failures"]][:6],
                     "solver": q.get("solver"), "solver_secs": q.get("sat_secs"), "decision_procedure_secs": q.get("dp_secs"), "symex_secs": q.get("symex_secs"),
                     "sat_vars_clauses": q.get("vars_clauses"), "cbmc_wall_secs": q.get("cbmc_secs"),
                     "error": q.get("error")} for q in qs],
        "smt_obligations": [{k: o.get(k) for k in ("name", "status", "solver", "secs", "desc", "error")} for o in out.e2],
        "functions_encoded": sorted({f for s in suites for f in s.functions} | set(getattr(mod, "E2_FUNCTIONS", []))),
        "stubs": sorted({f for s in suites for f in s.stubs}),
        "vacuity_twins": [{"harness": q["harness"], "violated_as_required": q["status"] == "fail"} for q in qs if q["expect"] == "fail"],
        "kani_codegen_secs": round(build_secs, 1),
        "solver_secs_total": round(sum((q.get("dp_secs") or q.get("sat_secs") or 0) for q in qs) + sum((o.get("secs") or 0) for o in out.e2), 2),
        "symex_secs_total": round(sum((q.get("symex_secs") or 0) for q in qs), 2),
        "known_findings_reported": [{"site": k["site"], "role": k["role"]} for k in out.known],
        "inconclusive": out.inconclusive,
        "engine": "Kani 0.68 (MIR->GOTO) + CBMC 6.11 (CaDiCaL) driven directly, --unwinding-assertions; "
                  "MIR->SMT-LIB (z3 4.8.12 / z3 5.1) where listed under smt_obligations",
        "outside_the_claim": getattr(mod, "OUTSIDE", []),
        "exhaustive": False,
    }
    ev = {
        "property_id": prop, "tier": tier, "seed": seed, "level": "model_checking",
        "coverage": cov,
        "assumptions": sorted({x for s in suites for x in s.assumptions} | set(getattr(mod, "ASSUMPTIONS", []))),
        "wall_s": round(wall, 1),
        "violations": len(confirmed),
    }
    evdir = os.environ.get("VERIF_EVIDENCE_DIR") or os.path.join(VERIF, "evidence")
    os.makedirs(evdir, exist_ok=True)
    with open(os.path.join(evdir, prop + ".json"), "w") as f:
        json.dump(ev, f, indent=1)
