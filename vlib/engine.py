"""E1 engine: Kani 0.68 as front end (MIR -> GOTO), CBMC 6.11 driven directly.

Every run:
  1. rsync /repo's working tree to a scratch dir (outside /repo and /verif),
  2. `cargo kani --only-codegen` with the generated harness file compiled into
     dryoc through the `--cfg dryoc_verif` hook,
  3. per harness: goto-cc / goto-instrument / cbmc (the pipeline kani-driver
     prints under --verbose) with --unwinding-assertions, in parallel,
  4. classify every CBMC property result ourselves,
  5. for failed harness assertions re-run without formula slicing to extract
     the witness (bytes the harness stored in its W_* statics).
Nothing here decides a property by running concrete inputs; native execution
is used only to replay a solver counterexample.
"""
import concurrent.futures as cf
import json
import os
import re
import resource
import shutil
import subprocess
import sys
import tempfile
import time

VERIF = os.path.dirname(os.path.dirname(os.path.abspath(__file__)))
REPO = os.environ.get("VERIF_REPO", "/repo")
KANI_HOME = "/root/.kani/kani-0.68.0"
KANI_LIB_C = KANI_HOME + "/library/kani/kani_lib.c"

CBMC_FLAGS = [
    "--no-malloc-may-fail", "--no-undefined-shift-check", "--no-signed-overflow-check",
    "--nan-check", "--no-self-loops-to-assumptions", "--no-pointer-primitive-check",
    "--object-bits", "16", "--unwinding-assertions", "--verbosity", "8",
]


class Harness:
    """One solver query family: a #[kani::proof] function and how to run it."""

    def __init__(self, name, unwind=20, unwindset=None, timeout=900, mem_gb=12,
                 expect="pass", desc="", site="", bounds=None, solver="cadical",
                 replay=None, needs_cover=True, recursion=None):
        self.name = name
        self.unwind = unwind
        self.unwindset = unwindset or []
        self.timeout = timeout
        self.mem_gb = mem_gb
        self.expect = expect          # "pass" | "fail" (vacuity twin: must be violated)
        self.desc = desc
        self.site = site              # API entry point / role this instance exercises
        self.bounds = bounds or {}
        self.solver = solver
        self.replay = replay          # name of replay template (props module decides)
        self.needs_cover = needs_cover
        self.recursion = recursion


EMPTY_RS = os.path.join(VERIF, "harness", "empty.rs")


class Suite:
    def __init__(self, prop, source, harnesses, features=(), clibs=(), stubs=(),
                 functions=(), assumptions=(), toolchain_flags=(), paths=None, argon2_source=None):
        self.paths = paths or {}            # harness name -> full module path, when not in crate::verif_harness
        self.argon2_source = argon2_source  # Rust text compiled as crate::argon2::verif_harness_argon2
        self.argon2_file = None
        self.prop = prop
        self.source = source          # Rust text of the harness module
        self.harnesses = harnesses
        self.features = list(features)
        self.clibs = list(clibs)      # C files linked via goto-cc (ghost libc, ...)
        self.stubs = list(stubs)
        self.functions = list(functions)
        self.assumptions = list(assumptions)


def log(*a):
    print("[verif]", *a, file=sys.stderr, flush=True)


class Scratch:
    """Scratch copy of /repo's working tree + build dirs, removed on close."""

    def __init__(self, tag):
        # tools/run_seeded.sh holds this lock while /repo carries a seeded patch (a few seconds): do not snapshot then
        # (a lock older than two minutes is stale - a killed sweep - and is ignored)
        lock = "/tmp/verif-repo-patched.lock"
        while not os.environ.get("VERIF_IGNORE_LOCK"):
            try:
                if time.time() - os.path.getmtime(lock) > 120:
                    break
            except OSError:
                break
            time.sleep(1)
        base = os.environ.get("VERIF_SCRATCH_BASE", "/tmp")
        self.dir = tempfile.mkdtemp(prefix="dryoc-verif-%s-" % tag, dir=base)
        self.repo = os.path.join(self.dir, "repo")
        subprocess.run(["rsync", "-a", "--delete", "--exclude", "/target", "--exclude", "/.git",
                        "--exclude", "/fuzz", REPO + "/", self.repo + "/"], check=True)

    def close(self):
        if os.environ.get("VERIF_KEEP_SCRATCH"):
            log("keeping scratch", self.dir)
            return
        shutil.rmtree(self.dir, ignore_errors=True)


def _limits(mem_gb):
    def f():
        b = int(mem_gb * (1 << 30))
        resource.setrlimit(resource.RLIMIT_AS, (b, b))
        os.setsid()
    return f


def run(cmd, timeout=None, mem_gb=None, cwd=None, env=None, out=None):
    """Run a command; returns (rc, seconds, timed_out). stdout+stderr -> file `out`."""
    t0 = time.time()
    fh = open(out, "w") if out else subprocess.DEVNULL
    try:
        p = subprocess.Popen(cmd, cwd=cwd, env=env, stdout=fh, stderr=subprocess.STDOUT,
                             preexec_fn=_limits(mem_gb) if mem_gb else os.setsid)
        try:
            rc = p.wait(timeout=timeout)
            return rc, time.time() - t0, False
        except subprocess.TimeoutExpired:
            try:
                os.killpg(p.pid, 9)
            except ProcessLookupError:
                pass
            p.wait()
            return -9, time.time() - t0, True
    finally:
        if out:
            fh.close()


def _codegen_chunk(scratch, suite, hfile, names, idx, logdir):
    target = os.path.join(scratch.dir, "target-kani-%s-%d" % (suite.prop, idx))
    env = dict(os.environ)
    env.update({
        "DRYOC_VERIF_HARNESS": hfile,
        "DRYOC_VERIF_HARNESS_ARGON2": (suite.argon2_file if getattr(suite, "argon2_file", None) else EMPTY_RS),
        "RUSTFLAGS": "--cfg dryoc_verif --cfg chacha20_force_soft -A warnings",
        "CARGO_NET_OFFLINE": "true",
    })
    cmd = ["cargo", "kani", "-Z", "stubbing", "--only-codegen", "--no-assertion-reach-checks",
           "--target-dir", target]
    for n in names:
        cmd += ["--harness", suite.paths.get(n, "verif_harness::" + n)]
    cmd += ["--exact"]
    if suite.clibs:
        cmd[2:2] = ["-Z", "c-ffi"]
    if suite.features:
        cmd += ["--features", ",".join(suite.features)]
    out = os.path.join(logdir, "codegen-%d.log" % idx)
    rc, secs, to = run(cmd, timeout=2400, cwd=scratch.repo, env=env, out=out)
    if rc != 0:
        tail = open(out, errors="replace").read()
        errs = [l for l in tail.splitlines() if l.startswith("error")]
        raise BuildError("kani codegen failed (rc=%s): %s" % (rc, "; ".join(errs[:5]) or tail[-2000:]), out)
    res = {}
    for root, _, files in os.walk(target):
        for fn in files:
            if fn.endswith(".symtab.out"):
                m = re.match(r"^[^_]*?-[0-9a-f]+_(_R.*)\.symtab\.out$", fn)
                if m:
                    res[m.group(1)] = os.path.join(root, fn)
    byname = {}
    for n in names:
        mod = suite.paths.get(n, "verif_harness::" + n).split("::")[-2]
        key = "%d%s%d%s" % (len(mod), mod, len(n), n)
        hits = [(m, p) for m, p in res.items() if m.endswith(key)]
        if len(hits) != 1:
            raise BuildError("harness %s: %d symtab files" % (n, len(hits)), out)
        byname[n] = (hits[0][1], hits[0][0])
    return byname


def kani_codegen(scratch, suite, logdir):
    """Compile the harness module into dryoc (Kani: MIR -> GOTO symbol tables), in parallel chunks.
    Returns {harness name: (symtab, mangled name)}."""
    t0 = time.time()
    hfile = os.path.join(scratch.dir, "harness_%s.rs" % suite.prop)
    with open(hfile, "w") as f:
        f.write(suite.source)
    if suite.argon2_source:
        suite.argon2_file = os.path.join(scratch.dir, "harness_%s_argon2.rs" % suite.prop)
        with open(suite.argon2_file, "w") as f:
            f.write(suite.argon2_source)
    names = [h.name for h in suite.harnesses]
    per = int(os.environ.get("VERIF_CODEGEN_CHUNK", "28"))
    nchunks = max(1, min(4, (len(names) + per - 1) // per))
    chunks = [names[i::nchunks] for i in range(nchunks)]
    byname = {}
    with cf.ThreadPoolExecutor(max_workers=nchunks) as ex:
        futs = [ex.submit(_codegen_chunk, scratch, suite, hfile, c, i, logdir) for i, c in enumerate(chunks)]
        for fu in futs:
            byname.update(fu.result())
    return byname, time.time() - t0


class BuildError(Exception):
    def __init__(self, msg, logfile=None):
        super().__init__(msg)
        self.logfile = logfile


# property ids may themselves contain brackets (e.g. `core::slice::<impl [u8]>::split_at.assertion.1`)
RES_RE = re.compile(r"^\[(?P<id>.+?)\] line (?P<line>\d+) (?P<desc>.*): (?P<st>SUCCESS|FAILURE|UNKNOWN|ERROR|UNREACHABLE)$")
NOLINE_RE = re.compile(r"^\[(?P<id>.+?\.\d+)\] (?P<desc>.*): (?P<st>SUCCESS|FAILURE|UNKNOWN|ERROR|UNREACHABLE)$")
SUMMARY_RE = re.compile(r"^\*\* (\d+) of (\d+) failed")
FILE_RE = re.compile(r"^(?P<file>\S.*) function (?P<fn>.+)$")


def parse_cbmc(logpath):
    """Parse CBMC's plain-text result section."""
    props = []
    verdict = None
    cur_file, cur_fn = None, None
    in_results = False
    sat_secs = 0.0
    symex_secs = 0.0
    dp_secs = 0.0
    nvars = None
    nfailed_reported = None
    ntotal_reported = None
    pending = None
    with open(logpath, errors="replace") as f:
        for line in f:
            line = line.rstrip("\n")
            if line.startswith("** Results:"):
                in_results = True
                continue
            if line.startswith("Runtime Solver:"):
                try:
                    sat_secs += float(line.split()[2].rstrip("s"))
                except Exception:
                    pass
            for key in ("Runtime Symex:", "Runtime decision procedure:"):
                if line.startswith(key):
                    try:
                        v = float(line.split()[-1].rstrip("s"))
                        if key == "Runtime Symex:":
                            symex_secs += v
                        else:
                            dp_secs += v
                    except Exception:
                        pass
            m = re.match(r"^(\d+) variables, (\d+) clauses", line)
            if m:
                nvars = (int(m.group(1)), int(m.group(2)))
            m = SUMMARY_RE.match(line)
            if m:
                nfailed_reported = int(m.group(1))
                ntotal_reported = int(m.group(2))
            if line.startswith("VERIFICATION SUCCESSFUL"):
                verdict = "SUCCESSFUL"
            elif line.startswith("VERIFICATION FAILED"):
                verdict = "FAILED"
            elif line.startswith("VERIFICATION ERROR") or line.startswith("VERIFICATION INCONCLUSIVE"):
                verdict = "ERROR"
            if line.startswith("Trace for "):
                in_results = False
            if not in_results:
                continue
            # descriptions can span lines (Kani sanity checks end with a URL on the next line): join until a status is seen
            if pending is not None:
                line = pending + " " + line
                pending = None
            m = RES_RE.match(line) or NOLINE_RE.match(line)
            if not m and line.startswith("[") and not line.startswith("[verif"):
                pending = line
                continue
            if m:
                d = m.groupdict()
                pid = d["id"]
                parts = pid.rsplit(".", 2)
                cls = parts[1] if len(parts) == 3 else "?"
                props.append({"id": pid, "class": cls, "line": int(d.get("line") or 0),
                              "desc": d["desc"], "status": d["st"], "file": cur_file, "fn": cur_fn})
                continue
            m = FILE_RE.match(line)
            if m:
                cur_file, cur_fn = m.group("file"), m.group("fn")
    return {"props": props, "verdict": verdict, "sat_secs": sat_secs, "symex_secs": symex_secs, "dp_secs": dp_secs, "vars_clauses": nvars,
            "nfailed_reported": nfailed_reported, "ntotal_reported": ntotal_reported}


WIT_RE = re.compile(r"verif_harness\d+(W_[A-Z0-9_]+)\[(\d+)(?:ul|l)?\]=(-?\d+)")


def parse_witness(logpath):
    """Last value assigned to each W_* static element in a CBMC trace."""
    wit = {}
    with open(logpath, errors="replace") as f:
        for line in f:
            if "verif_harness" not in line:
                continue
            m = WIT_RE.search(line)
            if m:
                wit.setdefault(m.group(1), {})[int(m.group(2))] = int(m.group(3))
    out = {}
    for k, d in wit.items():
        n = max(d) + 1
        out[k] = [d.get(i, 0) & 0xff for i in range(n)]
    return out


def build_goto(symtab, mangled, clibs, workdir, name, drop_bodies=()):
    """drop_bodies: regexes over mangled names; matching functions get an empty body (nondet return, no side effects).
    Used only for code whose effect is outside the property at hand (recorded with the harness)."""
    o = os.path.join(workdir, name + ".goto")
    lg = os.path.join(workdir, name + ".goto.log")
    steps = [
        ["goto-cc", symtab, KANI_LIB_C] + list(clibs) + ["-o", o],
        ["goto-cc", o, "--function", mangled, "-o", o],
        ["goto-instrument", "--add-library", "--no-malloc-may-fail", o, o],
        ["goto-instrument", "--generate-function-body-options", "assert-false-assume-false",
         "--generate-function-body", ".*", "--drop-unused-functions", o, o],
        ["goto-instrument", "--ensure-one-backedge-per-target", o, o],
    ]
    with open(lg, "w") as fh:
        for s in steps:
            r = subprocess.run(s, stdout=fh, stderr=subprocess.STDOUT)
            if r.returncode != 0:
                raise BuildError("%s failed for %s" % (s[0], name), lg)
        if drop_bodies:
            blob = open(o, "rb").read()
            names = set()
            for rx in drop_bodies:
                names |= set(m.decode() for m in re.findall(rx.encode(), blob))
            names = sorted(n for n in names if "." not in n)
            fh.write("drop_bodies: %s\n" % names)
            fh.flush()
            if not names:
                raise BuildError("drop_bodies matched no function for %s" % name, lg)
            for n in names:
                for s in (["goto-instrument", "--remove-function-body", n, o, o],
                          ["goto-instrument", "--generate-function-body-options", "nondet-return", "--generate-function-body", re.escape(n), o, o]):
                    r = subprocess.run(s, stdout=fh, stderr=subprocess.STDOUT)
                    if r.returncode != 0:
                        raise BuildError("%s failed for %s" % (s[0], name), lg)
    return o


def cbmc_cmd(h, goto, extra=()):
    cmd = ["cbmc"] + CBMC_FLAGS + ["--sat-solver", h.solver, "--unwind", str(h.unwind)]
    for u in h.unwindset:
        cmd += ["--unwindset", u]
    if h.recursion is not None:
        cmd += ["--depth", str(h.recursion)] if False else []
    cmd += list(extra) + [goto]
    return cmd


def run_harness(h, symtab, mangled, clibs, workdir):
    """Returns a result dict for one harness."""
    t0 = time.time()
    res = {"harness": h.name, "site": h.site, "desc": h.desc, "expect": h.expect,
           "bounds": dict(h.bounds, unwind=h.unwind, unwindset=h.unwindset), "status": None,
           "failures": [], "covers": {}, "nprops": 0, "solver": h.solver}
    try:
        goto = build_goto(symtab, mangled, clibs, workdir, h.name, getattr(h, 'drop_bodies', ()))
    except BuildError as e:
        res.update(status="error", error=str(e), secs=time.time() - t0)
        return res
    lg = os.path.join(workdir, h.name + ".cbmc.log")
    rc, secs, to = run(cbmc_cmd(h, goto, ["--slice-formula"]), timeout=h.timeout, mem_gb=h.mem_gb, out=lg)
    res["cbmc_secs"] = round(secs, 2)
    if to:
        res.update(status="timeout", secs=time.time() - t0)
        return res
    p = parse_cbmc(lg)
    res["sat_secs"] = round(p["sat_secs"], 2)
    res["symex_secs"] = round(p["symex_secs"], 2)
    res["dp_secs"] = round(p["dp_secs"], 2)
    res["vars_clauses"] = p.get("vars_clauses")
    res["vars_clauses"] = p["vars_clauses"]
    res["nprops"] = len(p["props"])
    if p["verdict"] not in ("SUCCESSFUL", "FAILED"):
        tail = subprocess.run(["tail", "-5", lg], capture_output=True, text=True).stdout
        res.update(status="error", error="cbmc rc=%s no verdict: %s" % (rc, tail[-400:]), secs=time.time() - t0)
        return res
    # the parser must account for every property CBMC reports, otherwise a failure could be silently dropped
    nfail_parsed = sum(1 for pr in p["props"] if pr["status"] == "FAILURE")
    if p["ntotal_reported"] is not None and (len(p["props"]) != p["ntotal_reported"] or nfail_parsed != p["nfailed_reported"]):
        res.update(status="error", error="result parser out of sync with CBMC: parsed %d properties / %d failures, CBMC reports %s / %s" % (
            len(p["props"]), nfail_parsed, p["ntotal_reported"], p["nfailed_reported"]), secs=time.time() - t0)
        return res
    fails, covers, bad = [], {}, []
    for pr in p["props"]:
        if pr["class"] == "cover":
            # CBMC encodes cover(c) as assert(!c): FAILURE == satisfiable == witness exists
            # several cover sites may share one description (e.g. one per fallible step): any of them suffices
            covers[pr["desc"]] = covers.get(pr["desc"], False) or (pr["status"] == "FAILURE")
            continue
        if pr["status"] == "SUCCESS":
            continue
        if pr["status"] == "FAILURE":
            if pr["class"] in ("unwind", "unsupported_construct", "recursion"):
                bad.append(pr)
            else:
                fails.append(pr)
        else:
            bad.append(pr)
    res["covers"] = covers
    res["failures"] = fails
    if bad:
        res.update(status="inconclusive", error="; ".join("%s %s" % (b["id"], b["desc"][:80]) for b in bad[:4]),
                   secs=time.time() - t0)
        return res
    if fails:
        res["status"] = "fail"
        # witness extraction: re-run unsliced on the first failing harness-level assertion
        tgt = None
        for pr in fails:
            if "verif_harness" in pr["id"]:
                tgt = pr
                break
        tgt = tgt or fails[0]
        wl = os.path.join(workdir, h.name + ".trace.log")
        rc2, secs2, to2 = run(cbmc_cmd(h, goto, ["--trace", "--property", tgt["id"]]),
                              timeout=h.timeout, mem_gb=h.mem_gb, out=wl)
        res["witness_for"] = tgt["id"]
        res["witness"] = parse_witness(wl) if not to2 else {}
        res["trace_secs"] = round(secs2, 2)
    else:
        res["status"] = "pass"
    res["secs"] = round(time.time() - t0, 2)
    return res


import threading
_MEM_COND = threading.Condition()
_MEM_AVAIL = [float(os.environ.get("VERIF_MEM_BUDGET_GB", "46"))]


def _run_budgeted(h, *a):
    """harnesses with a raised memory cap (> 16 GB) are admitted against a memory budget so that a suite run with many workers
    cannot exhaust the machine; ordinary harnesses (observed < 3 GB) count as 3 GB"""
    w = min(float(h.mem_gb) if h.mem_gb and h.mem_gb > 16 else 3.0, float(os.environ.get("VERIF_MEM_BUDGET_GB", "46")))
    with _MEM_COND:
        while _MEM_AVAIL[0] < w:
            _MEM_COND.wait()
        _MEM_AVAIL[0] -= w
    try:
        return run_harness(h, *a)
    finally:
        with _MEM_COND:
            _MEM_AVAIL[0] += w
            _MEM_COND.notify_all()


def run_suite(suite, scratch, logdir, jobs=None):
    os.makedirs(logdir, exist_ok=True)
    byname, build_secs = kani_codegen(scratch, suite, logdir)
    log("%s: codegen %.0fs, %d harnesses" % (suite.prop, build_secs, len(suite.harnesses)))
    jobs = jobs or int(os.environ.get("VERIF_JOBS", "12"))
    work = os.path.join(scratch.dir, "work-" + suite.prop)
    os.makedirs(work, exist_ok=True)
    results = []
    with cf.ThreadPoolExecutor(max_workers=jobs) as ex:
        futs = {}
        for h in suite.harnesses:
            symtab, mangled = byname[h.name]
            futs[ex.submit(_run_budgeted, h, symtab, mangled, suite.clibs, work)] = h
        for fu in cf.as_completed(futs):
            r = fu.result()
            h = futs[fu]
            log("  %-40s %-12s %6.1fs %s" % (h.name, r["status"], r.get("secs", 0),
                                            ("; ".join(f["desc"][:60] for f in r["failures"][:3]) or r.get("error", ""))[:160]))
            # keep the logs of anything that is not a clean pass
            if r["status"] != "pass" or os.environ.get("VERIF_KEEP_LOGS"):
                os.makedirs(logdir, exist_ok=True)
                for suf in (".cbmc.log", ".trace.log", ".goto.log"):
                    src = os.path.join(work, h.name + suf)
                    if os.path.exists(src) and os.path.getsize(src) < 50_000_000:
                        shutil.copy(src, os.path.join(logdir, h.name + suf))
            # a goto binary is ~10 MB: with thousands of programs per suite they must not pile up in the scratch dir
            if not os.environ.get("VERIF_KEEP_SCRATCH"):
                for suf in (".goto", ".cbmc.log", ".trace.log", ".goto.log"):
                    try:
                        os.remove(os.path.join(work, h.name + suf))
                    except OSError:
                        pass
            results.append(r)
    results.sort(key=lambda r: [h.name for h in suite.harnesses].index(r["harness"]))
    return results, build_secs
