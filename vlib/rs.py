"""Helpers to generate harness Rust text."""
import os
from .engine import VERIF

STUB_PATHS = {
    "barrier": ("zeroize::optimization_barrier", "noop_barrier"),
    "fmt": ("alloc::fmt::format", "fmt_stub"),
    "b2compress": ("crate::blake2b::blake2b_soft::compress", "compress_log_stub"),
    "mac_new": ("crate::poly1305::poly1305_soft::Poly1305::new", "poly_new_stub"),
    "mac_update": ("crate::poly1305::poly1305_soft::Poly1305::update", "poly_update_stub"),
    "mac_finalize": ("crate::poly1305::poly1305_soft::Poly1305::finalize", "poly_finalize_stub"),
    "seal_nonce": ("crate::classic::crypto_box::crypto_box_seal_nonce", "seal_nonce_stub"),
    "b2_finalize_any": ("crate::blake2b::blake2b_soft::State::finalize", "b2_finalize_any_stub"),
    "fmo": ("curve25519_dalek::scalar::Scalar::from_bytes_mod_order", "from_mod_order_stub"),
    "fcanon": ("curve25519_dalek::scalar::Scalar::from_canonical_bytes", "from_canonical_stub"),
    "fwide": ("curve25519_dalek::scalar::Scalar::from_bytes_mod_order_wide", "from_wide_stub"),
    "decompress": ("curve25519_dalek::edwards::CompressedEdwardsY::decompress", "decompress_stub"),
    "small_order": ("curve25519_dalek::edwards::EdwardsPoint::is_small_order", "small_order_stub"),
    "dsm": ("curve25519_dalek::edwards::EdwardsPoint::vartime_double_scalar_mul_basepoint", "dsm_stub"),
    "point_eq": ("<curve25519_dalek::edwards::EdwardsPoint as subtle::ConstantTimeEq>::ct_eq", "point_eq_stub"),
    "point_neg": ("<&curve25519_dalek::edwards::EdwardsPoint as core::ops::Neg>::neg", "neg_stub"),
    "sha_update": ("crate::sha512::Sha512::update", "sha_update_stub"),
    "sha_finalize": ("crate::sha512::Sha512::finalize_into_bytes", "sha_finalize_stub"),
    "scalarmult": ("crate::scalarmult_curve25519::crypto_scalarmult_curve25519", "scalarmult_stub"),
    "scalarmult_base": ("crate::scalarmult_curve25519::crypto_scalarmult_curve25519_base", "scalarmult_base_stub"),
}


def prelude():
    return open(os.path.join(VERIF, "harness", "prelude.rs")).read()


def load(name):
    return open(os.path.join(VERIF, "harness", name)).read()


def hdr(stubs=("barrier", "fmt"), extra=()):
    """Attribute block for a #[kani::proof] harness."""
    s = "#[kani::proof]\n"
    for k in stubs:
        a, b = STUB_PATHS[k]
        s += "#[kani::stub(%s, %s)]\n" % (a, b)
    for a, b in extra:
        s += "#[kani::stub(%s, %s)]\n" % (a, b)
    return s


def stub_names(stubs=("barrier", "fmt"), extra=()):
    return [STUB_PATHS[k][0] for k in stubs] + [a for a, _ in extra]


MAC = ("mac_new", "mac_update", "mac_finalize")

ED_VERIFY = ("fmo", "fcanon", "fwide", "decompress", "small_order", "dsm", "point_eq", "point_neg", "sha_update", "sha_finalize")
