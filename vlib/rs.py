"""Helpers to generate harness Rust text."""
import os
from .engine import VERIF

STUB_PATHS = {
    "barrier": ("zeroize::optimization_barrier", "noop_barrier"),
    "fmt": ("alloc::fmt::format", "fmt_stub"),
    "b2compress": ("crate::blake2b::blake2b_soft::compress", "compress_log_stub"),
}


def prelude():
    return open(os.path.join(VERIF, "harness", "prelude.rs")).read()


def load(name):
    return open(os.path.join(VERIF, "harness", name)).read()


def hdr(stubs=("barrier", "fmt"), extra=()):
    """Attribute block for a #[kani::proof] harness."""
    s = "#[kani::proof]\n"
    for k in stubs:
        a, b = STUB_PATHS[k]
        s += "#[kani::stub(%s, %s)]\n" % (a, b)
    for a, b in extra:
        s += "#[kani::stub(%s, %s)]\n" % (a, b)
    return s


def stub_names(stubs=("barrier", "fmt"), extra=()):
    return [STUB_PATHS[k][0] for k in stubs] + [a for a, _ in extra]
