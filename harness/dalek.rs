// ---- contract stubs for curve25519-dalek and the SHA-512 wrapper (C04 sign paths, C06, C13) ----
use curve25519_dalek::edwards::{CompressedEdwardsY, EdwardsPoint};
use curve25519_dalek::scalar::Scalar;
use crate::sha512::Sha512;

// group order l = 2^252 + 27742317777372353535851937790883648493, little endian
pub const ED_L: [u8; 32] = [
    0xed, 0xd3, 0xf5, 0x5c, 0x1a, 0x63, 0x12, 0x58, 0xd6, 0x9c, 0xf7, 0xa2, 0xde, 0xf9, 0xde, 0x14,
    0x00, 0x00, 0x00, 0x00, 0x00, 0x00, 0x00, 0x00, 0x00, 0x00, 0x00, 0x00, 0x00, 0x00, 0x00, 0x10,
];

pub fn lt_l(b: &[u8; 32]) -> bool {
    // b < l, both little endian
    let mut i = 32;
    while i > 0 {
        i -= 1;
        if b[i] < ED_L[i] { return true; }
        if b[i] > ED_L[i] { return false; }
    }
    false
}

pub fn any_point() -> EdwardsPoint {
    let w: [u64; 20] = kani::any();
    unsafe { core::mem::transmute::<[u64; 20], EdwardsPoint>(w) }
}
pub fn scalar_of(b: [u8; 32]) -> Scalar {
    unsafe { core::mem::transmute::<[u8; 32], Scalar>(b) }
}
pub fn bytes_of(s: &Scalar) -> [u8; 32] {
    unsafe { core::mem::transmute::<Scalar, [u8; 32]>(*s) }
}

// Scalar::from_bytes_mod_order contract: result v < l, and b < l  =>  v == b.  Arguments are logged.
pub fn from_mod_order_stub(b: [u8; 32]) -> Scalar {
    let v: [u8; 32] = if lt_l(&b) { b } else { let v: [u8; 32] = kani::any(); kani::assume(lt_l(&v)); v };
    unsafe {
        if DKS.fmo_n < 3 { DKS.fmo_in[DKS.fmo_n] = b; DKS.fmo_out[DKS.fmo_n] = v; }
        DKS.fmo_n += 1;
    }
    scalar_of(v)
}
pub fn from_wide_stub(b: &[u8; 64]) -> Scalar {
    let v: [u8; 32] = kani::any();
    kani::assume(lt_l(&v));
    unsafe {
        if DKS.fw_n < 3 { DKS.fw_in[DKS.fw_n] = *b; DKS.fw_out[DKS.fw_n] = v; }
        DKS.fw_n += 1;
    }
    scalar_of(v)
}

// point decoding / predicates: arbitrary outcomes, inputs logged
pub fn decompress_stub(c: &CompressedEdwardsY) -> Option<EdwardsPoint> {
    let some: bool = kani::any();
    unsafe {
        if DKS.dec_n < 3 { DKS.dec_in[DKS.dec_n] = c.0; DKS.dec_some[DKS.dec_n] = some; }
        DKS.dec_n += 1;
    }
    if some { Some(any_point()) } else { None }
}
pub fn small_order_stub(_p: &EdwardsPoint) -> bool {
    let r: bool = kani::any();
    unsafe {
        if DKS.small_n < 3 { DKS.small_out[DKS.small_n] = r; }
        DKS.small_n += 1;
    }
    r
}
pub fn dsm_stub(a: &Scalar, _p: &EdwardsPoint, b: &Scalar) -> EdwardsPoint {
    unsafe {
        DKS.dsm_a = bytes_of(a);
        DKS.dsm_b = bytes_of(b);
        DKS.dsm_n += 1;
    }
    any_point()
}
pub fn point_eq_stub(_a: &EdwardsPoint, _b: &EdwardsPoint) -> subtle::Choice {
    let r: bool = kani::any();
    unsafe { DKS.eq_out = r; DKS.eq_n += 1; }
    subtle::Choice::from(r as u8)
}
pub fn neg_stub<'a>(_p: &'a EdwardsPoint) -> EdwardsPoint where 'a: 'a {
    any_point()
}

// ideal hash in place of dryoc's SHA-512 wrapper over sha2 (instances are used strictly one after another):
// update appends to the transcript of the current instance, finalize returns the harness-chosen digest.
pub const SHA_CAP: usize = 200;
pub const SHA_INST: usize = 4;
pub fn sha_update_stub<Input: Bytes + ?Sized>(_s: &mut Sha512, input: &Input) {
    let b = input.as_slice();
    unsafe {
        let n = DKS.sha_cur;
        assert!(n < SHA_INST, "SHA_INSTANCES: more hash instances than the harness expects");
        let mut i = 0;
        while i < b.len() {
            assert!(DKS.sha_len[n] < SHA_CAP, "SHA_CAPACITY: hash transcript longer than the harness expects");
            DKS.sha_stream[n][DKS.sha_len[n]] = b[i];
            DKS.sha_len[n] += 1;
            i += 1;
        }
    }
}
pub fn sha_finalize_stub<Output: MutByteArray<64>>(_s: Sha512, output: &mut Output) {
    unsafe {
        let n = DKS.sha_cur;
        assert!(n < SHA_INST, "SHA_INSTANCES: more hash instances than the harness expects");
        let o = output.as_mut_slice();
        let mut i = 0;
        while i < 64 { o[i] = DKS.sha_out[n][i]; i += 1; }
        DKS.sha_cur = n + 1;
    }
}

// All mutable harness state of this file lives in ONE static with a unique magic first field: Kani/rustc
// intern allocations by content, so a `static mut X: usize = 0` can end up being the *same object* as an
// unrelated constant with the same bytes (observed: alloc::raw_vec ZERO_CAP aliased to a counter), and
// writing to it would corrupt the program under test.
pub struct DalekState {
    pub magic: u64,
    pub fmo_n: usize,
    pub fmo_in: [[u8; 32]; 3],
    pub fmo_out: [[u8; 32]; 3],
    pub fw_n: usize,
    pub fw_in: [[u8; 64]; 3],
    pub fw_out: [[u8; 32]; 3],
    pub dec_n: usize,
    pub dec_in: [[u8; 32]; 3],
    pub dec_some: [bool; 3],
    pub small_n: usize,
    pub small_out: [bool; 3],
    pub dsm_n: usize,
    pub dsm_a: [u8; 32],
    pub dsm_b: [u8; 32],
    pub eq_n: usize,
    pub eq_out: bool,
    pub sha_cur: usize,
    pub sha_stream: [[u8; SHA_CAP]; SHA_INST],
    pub sha_len: [usize; SHA_INST],
    pub sha_out: [[u8; 64]; SHA_INST],
}
pub static mut DKS: DalekState = DalekState {
    magic: 0xDADA00035EEDC0DE,
    fmo_n: 0,
    fmo_in: [[0; 32]; 3],
    fmo_out: [[0; 32]; 3],
    fw_n: 0,
    fw_in: [[0; 64]; 3],
    fw_out: [[0; 32]; 3],
    dec_n: 0,
    dec_in: [[0; 32]; 3],
    dec_some: [false; 3],
    small_n: 0,
    small_out: [false; 3],
    dsm_n: 0,
    dsm_a: [0; 32],
    dsm_b: [0; 32],
    eq_n: 0,
    eq_out: false,
    sha_cur: 0,
    sha_stream: [[0; SHA_CAP]; SHA_INST],
    sha_len: [0; SHA_INST],
    sha_out: [[0; 64]; SHA_INST],
};

// Scalar::from_canonical_bytes contract: Some(b) iff b < l; logged in the same slots as from_bytes_mod_order
pub fn from_canonical_stub(b: [u8; 32]) -> subtle::CtOption<Scalar> {
    let ok = lt_l(&b);
    unsafe {
        if DKS.fmo_n < 3 { DKS.fmo_in[DKS.fmo_n] = b; DKS.fmo_out[DKS.fmo_n] = b; }
        DKS.fmo_n += 1;
    }
    subtle::CtOption::new(scalar_of(b), subtle::Choice::from(ok as u8))
}
