// Common prelude of every generated harness module (compiled into dryoc as
// `crate::verif_harness` through the `--cfg dryoc_verif` hook).
#[allow(unused_imports)]
use crate::constants::*;

// ---- witness slots: bytes the harness wants back from a counterexample ----
pub static mut W_0: [u8; 160] = [0xa0; 160];
pub static mut W_1: [u8; 160] = [0xa1; 160];
pub static mut W_2: [u8; 160] = [0xa2; 160];
pub static mut W_3: [u8; 160] = [0xa3; 160];
pub static mut W_4: [u8; 160] = [0xa4; 160];
pub static mut W_5: [u8; 160] = [0xa5; 160];

macro_rules! wit {
    ($slot:ident, $bytes:expr) => {{
        let b: &[u8] = $bytes;
        let mut i = 0;
        while i < b.len() && i < 160 {
            unsafe { $slot[i] = b[i]; }
            i += 1;
        }
    }};
}

// ---- generic stubs ----
// zeroize's barrier is inline asm; without this stub CBMC cuts everything after the first zeroize().
pub fn noop_barrier<T: ?Sized>(_v: &T) {}
// error paths build messages with format!; the text is irrelevant to every property here.
pub fn fmt_stub(_args: core::fmt::Arguments<'_>) -> String {
    String::new()
}

// ---- BLAKE2b compress transcript (stub for crate::blake2b::blake2b_soft::compress) ----
pub const B2_CAP: usize = 10;

pub fn compress_log_stub(sh: &mut [u64; 8], st: &[u64; 2], sf: &[u64; 2], block: &[u8]) {
    unsafe {
        let n = B2S.b2_n;
        assert!(n < B2_CAP, "B2LOG_CAPACITY: more compress calls than the harness expects");
        assert!(block.len() == 128, "B2_BLOCKLEN: compress must be given exactly one 128-byte block");
        B2S.b2_hin[n] = *sh;
        B2S.b2_t[n] = *st;
        B2S.b2_f[n] = *sf;
        let mut i = 0;
        while i < 128 {
            B2S.b2_blk[n][i] = block[i];
            i += 1;
        }
        let out: [u64; 8] = kani::any();
        B2S.b2_hout[n] = out;
        *sh = out;
        B2S.b2_n = n + 1;
    }
}

pub const B2_IV: [u64; 8] = [
    0x6a09e667f3bcc908, 0xbb67ae8584caa73b, 0x3c6ef372fe94f82b, 0xa54ff53a5f1d36f1,
    0x510e527fade682d1, 0x9b05688c2b3e6c1f, 0x1f83d9abfb41bd6b, 0x5be0cd19137e2179,
];

/// RFC 7693 parameter block folded into the IV: the chaining value every BLAKE2b
/// computation must start from.
pub fn b2_h0(outlen: u8, keylen: u8, salt: &[u8; 16], personal: &[u8; 16]) -> [u64; 8] {
    let mut h = B2_IV;
    h[0] ^= (outlen as u64) | ((keylen as u64) << 8) | (1u64 << 16) | (1u64 << 24);
    h[4] ^= u64::from_le_bytes([salt[0], salt[1], salt[2], salt[3], salt[4], salt[5], salt[6], salt[7]]);
    h[5] ^= u64::from_le_bytes([salt[8], salt[9], salt[10], salt[11], salt[12], salt[13], salt[14], salt[15]]);
    h[6] ^= u64::from_le_bytes([
        personal[0], personal[1], personal[2], personal[3], personal[4], personal[5], personal[6], personal[7],
    ]);
    h[7] ^= u64::from_le_bytes([
        personal[8], personal[9], personal[10], personal[11], personal[12], personal[13], personal[14], personal[15],
    ]);
    h
}

pub fn b2_out_bytes(h: &[u64; 8]) -> [u8; 64] {
    let mut o = [0u8; 64];
    let mut i = 0;
    while i < 8 {
        let b = h[i].to_le_bytes();
        let mut j = 0;
        while j < 8 {
            o[8 * i + j] = b[j];
            j += 1;
        }
        i += 1;
    }
    o
}

// All mutable harness state of this file lives in ONE static with a unique magic first field: Kani/rustc
// intern allocations by content, so a `static mut X: usize = 0` can end up being the *same object* as an
// unrelated constant with the same bytes (observed: alloc::raw_vec ZERO_CAP aliased to a counter), and
// writing to it would corrupt the program under test.
pub struct B2State {
    pub magic: u64,
    pub b2_n: usize,
    pub b2_hin: [[u64; 8]; B2_CAP],
    pub b2_t: [[u64; 2]; B2_CAP],
    pub b2_f: [[u64; 2]; B2_CAP],
    pub b2_blk: [[u8; 128]; B2_CAP],
    pub b2_hout: [[u64; 8]; B2_CAP],
}
pub static mut B2S: B2State = B2State {
    magic: 0xB2B2000153EDC0DE,
    b2_n: 0,
    b2_hin: [[0; 8]; B2_CAP],
    b2_t: [[0; 2]; B2_CAP],
    b2_f: [[0; 2]; B2_CAP],
    b2_blk: [[0; 128]; B2_CAP],
    b2_hout: [[0; 8]; B2_CAP],
};
