/* Ghost kernel / libc for the protected-memory harnesses (C14, C15, C19).
 * Linked with goto-cc into the harness binary; dryoc's own foreign calls
 * (sysconf, posix_memalign, free, mprotect, mlock, munlock, madvise,
 * __errno_location) land here. POSIX semantics as modelled:
 *   - mprotect: addr must be page aligned (else EINVAL); len == 0 is a no-op;
 *     the range is widened to whole pages containing any byte of [addr, addr+len).
 *   - mlock/munlock: page-rounded at both ends; mlock fails (ENOMEM) from the
 *     g_mlock_fail_from-th call on (a symbolic fault schedule set by the harness);
 *     Linux behaviour for inaccessible pages: mlock over a PROT_NONE page returns
 *     ENOMEM but leaves the range marked locked.
 *   - free: records, for the block being released, whether any byte is non-zero,
 *     any page still locked, any page not read+write.
 * The page size is tiny (GHOST_PAGE, default 4) so that page-1 / page / page+1 /
 * 2*page+1 are small literals. */
#include <stddef.h>
#include <stdlib.h>
#include <stdint.h>

#ifndef GHOST_PAGE
#define GHOST_PAGE 4
#endif
#define MAXA 8
#define MAXP 10

#define PROT_NONE_ 0
#define PROT_READ_ 1
#define PROT_RW_ 3

struct galloc {
  char *base;
  size_t size;
  int live;
  int freed;
  unsigned char prot[MAXP];
  unsigned char locked[MAXP];
};

static struct galloc g_a[MAXA];
static int g_na = 0;
int g_mlock_calls = 0;
int g_mlock_fail_from = -1; /* -1: never fails */
int g_mlock_failed = 0;
int g_dirty_free = 0;      /* a block reached free() with a non-zero byte */
int g_locked_free = 0;     /* a block reached free() with a locked page */
int g_prot_free = 0;       /* a block reached free() with a page not RW */
int g_bad_call = 0;        /* mprotect/mlock on memory the ghost does not know, or misaligned */
int g_double_free = 0;
static int g_errno = 0;

long sysconf(int name) { return GHOST_PAGE; }
int *__errno_location(void) { return &g_errno; }

int posix_memalign(void **out, size_t align, size_t size) {
  if (g_na >= MAXA) { g_bad_call = 1; return 12; }
  if (size > MAXP * GHOST_PAGE) { g_bad_call = 1; return 12; }
  /* zero-filled: non-zero bytes found at free() were then written by the code under test */
  char *p = calloc(1, size);
  __CPROVER_assume(p != 0);
  struct galloc *a = &g_a[g_na++];
  a->base = p; a->size = size; a->live = 1; a->freed = 0;
  for (int i = 0; i < MAXP; i++) { a->prot[i] = PROT_RW_; a->locked[i] = 0; }
  *out = p;
  return 0;
}

static struct galloc *find(const void *addr) {
  for (int i = 0; i < g_na; i++) {
    if (g_a[i].live && __CPROVER_POINTER_OBJECT(addr) == __CPROVER_POINTER_OBJECT(g_a[i].base))
      return &g_a[i];
  }
  return 0;
}

int mprotect(void *addr, size_t len, int prot) {
  struct galloc *a = find(addr);
  if (!a) { g_bad_call = 1; g_errno = 12; return -1; }
  size_t off = __CPROVER_POINTER_OFFSET(addr);
  if (off % GHOST_PAGE != 0) { g_bad_call = 1; g_errno = 22; return -1; }
  if (len == 0) return 0;
  if (off + len > a->size) { g_bad_call = 1; g_errno = 12; return -1; }
  size_t first = off / GHOST_PAGE, last = (off + len - 1) / GHOST_PAGE;
  for (size_t p = first; p <= last && p < MAXP; p++) a->prot[p] = (unsigned char)(prot & 3);
  return 0;
}

int mlock(const void *addr, size_t len) {
  int k = g_mlock_calls++;
  if (g_mlock_fail_from >= 0 && k >= g_mlock_fail_from) { g_mlock_failed = 1; g_errno = 12; return -1; }
  struct galloc *a = find(addr);
  if (!a) { g_bad_call = 1; g_errno = 12; return -1; }
  if (len == 0) return 0;
  size_t off = __CPROVER_POINTER_OFFSET(addr);
  if (off + len > a->size) { g_bad_call = 1; g_errno = 12; return -1; }
  size_t first = off / GHOST_PAGE, last = (off + len - 1) / GHOST_PAGE;
  /* Linux: VM_LOCKED is applied to the range first, then the pages are faulted in; faulting an inaccessible (PROT_NONE)
   * page fails and mlock returns ENOMEM - with the range still marked locked (observed natively: VmLck stays raised). */
  int inaccessible = 0;
  for (size_t p = first; p <= last && p < MAXP; p++) { a->locked[p] = 1; if (a->prot[p] == PROT_NONE_) inaccessible = 1; }
  if (inaccessible) { g_errno = 12; return -1; }
  return 0;
}

int munlock(const void *addr, size_t len) {
  struct galloc *a = find(addr);
  if (!a) { g_bad_call = 1; g_errno = 12; return -1; }
  if (len == 0) return 0;
  size_t off = __CPROVER_POINTER_OFFSET(addr);
  if (off + len > a->size) { g_bad_call = 1; g_errno = 12; return -1; }
  size_t first = off / GHOST_PAGE, last = (off + len - 1) / GHOST_PAGE;
  for (size_t p = first; p <= last && p < MAXP; p++) a->locked[p] = 0;
  return 0;
}

int madvise(void *addr, size_t len, int advice) { return 0; }

void free(void *ptr) {
  if (ptr == 0) return;
  struct galloc *a = 0;
  for (int i = 0; i < g_na; i++)
    if (__CPROVER_POINTER_OBJECT(ptr) == __CPROVER_POINTER_OBJECT(g_a[i].base)) a = &g_a[i];
  if (!a) return; /* ordinary heap block (Rust global allocator): not the subject, leaked in the model */
  if (a->freed) { g_double_free = 1; return; }
  if (__CPROVER_POINTER_OFFSET(ptr) != 0) { g_bad_call = 1; return; }
  size_t np = (a->size + GHOST_PAGE - 1) / GHOST_PAGE;
  for (size_t i = 0; i < a->size; i++) if (a->base[i] != 0) g_dirty_free = 1;
  for (size_t p = 0; p < np && p < MAXP; p++) {
    if (a->locked[p]) g_locked_free = 1;
    if (a->prot[p] != PROT_RW_) g_prot_free = 1;
  }
  a->freed = 1;
  a->live = 0;
}

/* ---- observers called by the harness (return int: Rust unit != C void under goto-cc) ---- */

/* Bitmask of violated page predicates for the region [ptr, ptr+len):
 * 1 data page with rights != want_prot; 2 data page with lock state != want_locked;
 * 4 page before the data not PROT_NONE; 8 the block's last page (beyond the data) is not PROT_NONE;
 * 16 region not inside a live ghost allocation / not page aligned. */
int ghost_region_check(const void *ptr, size_t len, int want_prot, int want_locked) {
  struct galloc *a = find(ptr);
  if (!a || len == 0) return 16;
  size_t off = __CPROVER_POINTER_OFFSET(ptr);
  if (off % GHOST_PAGE != 0 || off < GHOST_PAGE || off + len > a->size) return 16;
  int r = 0;
  size_t first = off / GHOST_PAGE, last = (off + len - 1) / GHOST_PAGE;
  for (size_t p = first; p <= last && p < MAXP; p++) {
    if (a->prot[p] != (unsigned char)want_prot) r |= 1;
    if (a->locked[p] != (unsigned char)want_locked) r |= 2;
  }
  if (a->prot[first - 1] != PROT_NONE_) r |= 4;
  {
    /* aft guard: the last page of the block (how far it may lie beyond the usable allocation is
       checked by the allocator harness, which sees the requested layout) */
    size_t np = a->size / GHOST_PAGE;
    if (np < 3 || np > MAXP || a->size % GHOST_PAGE != 0 || a->prot[np - 1] != PROT_NONE_ || np - 1 <= last) r |= 8;
  }
  return r;
}

/* End-state bitmask: 1 some ghost block never freed; 2 a block was freed with a locked page;
 * 4 a block was freed with a page not RW; 8 a block was freed dirty; 16 bad/misaligned call seen;
 * 32 double free. */
int ghost_final(void) {
  int r = 0;
  for (int i = 0; i < g_na; i++) if (!g_a[i].freed) r |= 1;
  if (g_locked_free) r |= 2;
  if (g_prot_free) r |= 4;
  if (g_dirty_free) r |= 8;
  if (g_bad_call) r |= 16;
  if (g_double_free) r |= 32;
  return r;
}
int ghost_allocs(void) { return g_na; }
/* size of the i-th block requested from posix_memalign, and rights of its page */
long ghost_block_size(int i) { return (i >= 0 && i < g_na) ? (long)g_a[i].size : -1; }
int ghost_block_prot(int i, int page) { return (i >= 0 && i < g_na && page >= 0 && page < MAXP) ? g_a[i].prot[page] : -1; }
long ghost_block_offset(int i, const void *p) {
  if (i < 0 || i >= g_na || __CPROVER_POINTER_OBJECT(p) != __CPROVER_POINTER_OBJECT(g_a[i].base)) return -1;
  return (long)__CPROVER_POINTER_OFFSET(p);
}
int ghost_dirty_free(void) { return g_dirty_free; }
int ghost_set_mlock_fail_from(int k) { g_mlock_fail_from = k; return 0; }
int ghost_mlock_calls(void) { return g_mlock_calls; }
int ghost_mlock_failed(void) { return g_mlock_failed; }
int ghost_bad_call(void) { return g_bad_call; }
