// ---- the harness's own transcription of Salsa20 / HSalsa20 / XSalsa20 (Bernstein's spec), used only at literal keys ----
fn salsa_rounds(x: &mut [u32; 16]) {
    let mut r = 0;
    while r < 10 {
        x[4] ^= x[0].wrapping_add(x[12]).rotate_left(7);   x[8] ^= x[4].wrapping_add(x[0]).rotate_left(9);
        x[12] ^= x[8].wrapping_add(x[4]).rotate_left(13);  x[0] ^= x[12].wrapping_add(x[8]).rotate_left(18);
        x[9] ^= x[5].wrapping_add(x[1]).rotate_left(7);    x[13] ^= x[9].wrapping_add(x[5]).rotate_left(9);
        x[1] ^= x[13].wrapping_add(x[9]).rotate_left(13);  x[5] ^= x[1].wrapping_add(x[13]).rotate_left(18);
        x[14] ^= x[10].wrapping_add(x[6]).rotate_left(7);  x[2] ^= x[14].wrapping_add(x[10]).rotate_left(9);
        x[6] ^= x[2].wrapping_add(x[14]).rotate_left(13);  x[10] ^= x[6].wrapping_add(x[2]).rotate_left(18);
        x[3] ^= x[15].wrapping_add(x[11]).rotate_left(7);  x[7] ^= x[3].wrapping_add(x[15]).rotate_left(9);
        x[11] ^= x[7].wrapping_add(x[3]).rotate_left(13);  x[15] ^= x[11].wrapping_add(x[7]).rotate_left(18);
        x[1] ^= x[0].wrapping_add(x[3]).rotate_left(7);    x[2] ^= x[1].wrapping_add(x[0]).rotate_left(9);
        x[3] ^= x[2].wrapping_add(x[1]).rotate_left(13);   x[0] ^= x[3].wrapping_add(x[2]).rotate_left(18);
        x[6] ^= x[5].wrapping_add(x[4]).rotate_left(7);    x[7] ^= x[6].wrapping_add(x[5]).rotate_left(9);
        x[4] ^= x[7].wrapping_add(x[6]).rotate_left(13);   x[5] ^= x[4].wrapping_add(x[7]).rotate_left(18);
        x[11] ^= x[10].wrapping_add(x[9]).rotate_left(7);  x[8] ^= x[11].wrapping_add(x[10]).rotate_left(9);
        x[9] ^= x[8].wrapping_add(x[11]).rotate_left(13);  x[10] ^= x[9].wrapping_add(x[8]).rotate_left(18);
        x[12] ^= x[15].wrapping_add(x[14]).rotate_left(7); x[13] ^= x[12].wrapping_add(x[15]).rotate_left(9);
        x[14] ^= x[13].wrapping_add(x[12]).rotate_left(13); x[15] ^= x[14].wrapping_add(x[13]).rotate_left(18);
        r += 1;
    }
}
fn le32(b: &[u8], i: usize) -> u32 { u32::from_le_bytes([b[i], b[i + 1], b[i + 2], b[i + 3]]) }
fn salsa_init(key: &[u8; 32], n16: &[u8; 16]) -> [u32; 16] {
    let mut x = [0u32; 16];
    x[0] = 0x61707865; x[5] = 0x3320646e; x[10] = 0x79622d32; x[15] = 0x6b206574;
    x[1] = le32(key, 0); x[2] = le32(key, 4); x[3] = le32(key, 8); x[4] = le32(key, 12);
    x[11] = le32(key, 16); x[12] = le32(key, 20); x[13] = le32(key, 24); x[14] = le32(key, 28);
    x[6] = le32(n16, 0); x[7] = le32(n16, 4); x[8] = le32(n16, 8); x[9] = le32(n16, 12);
    x
}
pub fn hsalsa20_spec(key: &[u8; 32], n16: &[u8; 16]) -> [u8; 32] {
    let mut x = salsa_init(key, n16);
    salsa_rounds(&mut x);
    let idx = [0usize, 5, 10, 15, 6, 7, 8, 9];
    let mut out = [0u8; 32];
    let mut i = 0;
    while i < 8 { let b = x[idx[i]].to_le_bytes(); out[4 * i] = b[0]; out[4 * i + 1] = b[1]; out[4 * i + 2] = b[2]; out[4 * i + 3] = b[3]; i += 1; }
    out
}
pub fn salsa20_block_spec(key: &[u8; 32], n8: &[u8; 8], counter: u64) -> [u8; 64] {
    let mut n16 = [0u8; 16];
    let mut i = 0; while i < 8 { n16[i] = n8[i]; i += 1; }
    let c = counter.to_le_bytes(); i = 0; while i < 8 { n16[8 + i] = c[i]; i += 1; }
    let x0 = salsa_init(key, &n16);
    let mut x = x0;
    salsa_rounds(&mut x);
    let mut out = [0u8; 64];
    i = 0;
    while i < 16 { let b = x[i].wrapping_add(x0[i]).to_le_bytes(); out[4 * i] = b[0]; out[4 * i + 1] = b[1]; out[4 * i + 2] = b[2]; out[4 * i + 3] = b[3]; i += 1; }
    out
}
/// XSalsa20 keystream block `blk` for (key, 24-byte nonce)
pub fn xsalsa20_block_spec(key: &[u8; 32], nonce: &[u8; 24], blk: u64) -> [u8; 64] {
    let mut n16 = [0u8; 16]; let mut n8 = [0u8; 8];
    let mut i = 0; while i < 16 { n16[i] = nonce[i]; i += 1; }
    i = 0; while i < 8 { n8[i] = nonce[16 + i]; i += 1; }
    let sub = hsalsa20_spec(key, &n16);
    salsa20_block_spec(&sub, &n8, blk)
}
