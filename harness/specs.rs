// ---- the harness's own transcriptions of the published specifications (kernels) ----
// RFC 7693 BLAKE2b compression function F. Additions are written a + (b + x): modular addition is
// associative, so this is a faithful reading of v[a] := (v[a] + v[b] + x) mod 2^64.
pub const B2_SIGMA: [[usize; 16]; 10] = [
    [0, 1, 2, 3, 4, 5, 6, 7, 8, 9, 10, 11, 12, 13, 14, 15], [14, 10, 4, 8, 9, 15, 13, 6, 1, 12, 0, 2, 11, 7, 5, 3],
    [11, 8, 12, 0, 5, 2, 15, 13, 10, 14, 3, 6, 7, 1, 9, 4], [7, 9, 3, 1, 13, 12, 11, 14, 2, 6, 5, 10, 4, 0, 15, 8],
    [9, 0, 5, 7, 2, 4, 10, 15, 14, 1, 11, 12, 6, 8, 3, 13], [2, 12, 6, 10, 0, 11, 8, 3, 4, 13, 7, 5, 15, 14, 1, 9],
    [12, 5, 1, 15, 14, 13, 4, 10, 0, 7, 6, 3, 9, 2, 8, 11], [13, 11, 7, 14, 12, 1, 3, 9, 5, 0, 15, 4, 8, 6, 2, 10],
    [6, 15, 14, 9, 11, 3, 0, 8, 12, 2, 13, 7, 1, 4, 10, 5], [10, 2, 8, 4, 7, 6, 1, 5, 15, 11, 9, 14, 3, 12, 13, 0],
];
fn b2_g(v: &mut [u64; 16], a: usize, b: usize, c: usize, d: usize, x: u64, y: u64) {
    v[a] = v[a].wrapping_add(v[b].wrapping_add(x));
    v[d] = (v[d] ^ v[a]).rotate_right(32);
    v[c] = v[c].wrapping_add(v[d]);
    v[b] = (v[b] ^ v[c]).rotate_right(24);
    v[a] = v[a].wrapping_add(v[b].wrapping_add(y));
    v[d] = (v[d] ^ v[a]).rotate_right(16);
    v[c] = v[c].wrapping_add(v[d]);
    v[b] = (v[b] ^ v[c]).rotate_right(63);
}
pub fn b2_compress_spec(h: &[u64; 8], t: &[u64; 2], f: &[u64; 2], block: &[u8; 128]) -> [u64; 8] {
    let mut m = [0u64; 16];
    let mut i = 0;
    while i < 16 {
        m[i] = u64::from_le_bytes([block[8 * i], block[8 * i + 1], block[8 * i + 2], block[8 * i + 3], block[8 * i + 4], block[8 * i + 5], block[8 * i + 6], block[8 * i + 7]]);
        i += 1;
    }
    let mut v = [0u64; 16];
    i = 0;
    while i < 8 { v[i] = h[i]; v[i + 8] = B2_IV[i]; i += 1; }
    v[12] ^= t[0]; v[13] ^= t[1]; v[14] ^= f[0]; v[15] ^= f[1];
    let mut r = 0;
    while r < 12 {
        let s = &B2_SIGMA[r % 10];
        b2_g(&mut v, 0, 4, 8, 12, m[s[0]], m[s[1]]);
        b2_g(&mut v, 1, 5, 9, 13, m[s[2]], m[s[3]]);
        b2_g(&mut v, 2, 6, 10, 14, m[s[4]], m[s[5]]);
        b2_g(&mut v, 3, 7, 11, 15, m[s[6]], m[s[7]]);
        b2_g(&mut v, 0, 5, 10, 15, m[s[8]], m[s[9]]);
        b2_g(&mut v, 1, 6, 11, 12, m[s[10]], m[s[11]]);
        b2_g(&mut v, 2, 7, 8, 13, m[s[12]], m[s[13]]);
        b2_g(&mut v, 3, 4, 9, 14, m[s[14]], m[s[15]]);
        r += 1;
    }
    let mut out = [0u64; 8];
    i = 0;
    while i < 8 { out[i] = h[i] ^ v[i] ^ v[i + 8]; i += 1; }
    out
}

// SipHash-2-4 (Aumasson & Bernstein)
fn sip_round(v: &mut [u64; 4]) {
    v[0] = v[0].wrapping_add(v[1]); v[1] = v[1].rotate_left(13); v[1] ^= v[0]; v[0] = v[0].rotate_left(32);
    v[2] = v[2].wrapping_add(v[3]); v[3] = v[3].rotate_left(16); v[3] ^= v[2];
    v[0] = v[0].wrapping_add(v[3]); v[3] = v[3].rotate_left(21); v[3] ^= v[0];
    v[2] = v[2].wrapping_add(v[1]); v[1] = v[1].rotate_left(17); v[1] ^= v[2]; v[2] = v[2].rotate_left(32);
}
pub fn siphash24_spec(input: &[u8], key: &[u8; 16]) -> [u8; 8] {
    let k0 = u64::from_le_bytes([key[0], key[1], key[2], key[3], key[4], key[5], key[6], key[7]]);
    let k1 = u64::from_le_bytes([key[8], key[9], key[10], key[11], key[12], key[13], key[14], key[15]]);
    let mut v = [k0 ^ 0x736f6d6570736575, k1 ^ 0x646f72616e646f6d, k0 ^ 0x6c7967656e657261, k1 ^ 0x7465646279746573];
    let n = input.len();
    let mut i = 0;
    while i + 8 <= n {
        let m = u64::from_le_bytes([input[i], input[i + 1], input[i + 2], input[i + 3], input[i + 4], input[i + 5], input[i + 6], input[i + 7]]);
        v[3] ^= m; sip_round(&mut v); sip_round(&mut v); v[0] ^= m;
        i += 8;
    }
    let mut b: u64 = ((n & 0xff) as u64) << 56;
    let mut j = 0;
    while i + j < n { b |= (input[i + j] as u64) << (8 * j); j += 1; }
    v[3] ^= b; sip_round(&mut v); sip_round(&mut v); v[0] ^= b;
    v[2] ^= 0xff;
    sip_round(&mut v); sip_round(&mut v); sip_round(&mut v); sip_round(&mut v);
    (v[0] ^ v[1] ^ v[2] ^ v[3]).to_le_bytes()
}

// HChaCha20 (draft-irtf-cfrg-xchacha) with the standard constants
fn cc_qr(s: &mut [u32; 16], a: usize, b: usize, c: usize, d: usize) {
    s[a] = s[a].wrapping_add(s[b]); s[d] ^= s[a]; s[d] = s[d].rotate_left(16);
    s[c] = s[c].wrapping_add(s[d]); s[b] ^= s[c]; s[b] = s[b].rotate_left(12);
    s[a] = s[a].wrapping_add(s[b]); s[d] ^= s[a]; s[d] = s[d].rotate_left(8);
    s[c] = s[c].wrapping_add(s[d]); s[b] ^= s[c]; s[b] = s[b].rotate_left(7);
}
pub fn hchacha20_spec(key: &[u8; 32], input: &[u8; 16], c: (u32, u32, u32, u32)) -> [u8; 32] {
    let mut st = [0u32; 16];
    st[0] = c.0; st[1] = c.1; st[2] = c.2; st[3] = c.3;
    let mut i = 0;
    while i < 8 { st[4 + i] = u32::from_le_bytes([key[4 * i], key[4 * i + 1], key[4 * i + 2], key[4 * i + 3]]); i += 1; }
    i = 0;
    while i < 4 { st[12 + i] = u32::from_le_bytes([input[4 * i], input[4 * i + 1], input[4 * i + 2], input[4 * i + 3]]); i += 1; }
    let mut r = 0;
    while r < 10 {
        cc_qr(&mut st, 0, 4, 8, 12); cc_qr(&mut st, 1, 5, 9, 13); cc_qr(&mut st, 2, 6, 10, 14); cc_qr(&mut st, 3, 7, 11, 15);
        cc_qr(&mut st, 0, 5, 10, 15); cc_qr(&mut st, 1, 6, 11, 12); cc_qr(&mut st, 2, 7, 8, 13); cc_qr(&mut st, 3, 4, 9, 14);
        r += 1;
    }
    let idx = [0usize, 1, 2, 3, 12, 13, 14, 15];
    let mut out = [0u8; 32];
    i = 0;
    while i < 8 { let b = st[idx[i]].to_le_bytes(); out[4 * i] = b[0]; out[4 * i + 1] = b[1]; out[4 * i + 2] = b[2]; out[4 * i + 3] = b[3]; i += 1; }
    out
}
