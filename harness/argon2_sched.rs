// Compiled as crate::argon2::verif_harness_argon2 (child of the argon2 module, so Block and its words are nameable).
// Stubs for the Argon2 block schedule driver (C09): the compression function G and the variable-length hash H' are
// replaced by loggers that tag every block they produce with a fresh identity (word 127) and fill the words the
// schedule reads back (J = word 0; words 0..3 for data-independent addressing) with fresh symbolic values.
pub(crate) const A2L_CAP: usize = 40;
pub(crate) const A2L_LH: usize = 4;

pub(crate) struct A2Log {
    pub magic: u64,
    pub n: usize,
    pub previd: [u64; A2L_CAP],
    pub refid: [u64; A2L_CAP],
    pub oldid: [u64; A2L_CAP],
    pub xor: [bool; A2L_CAP],
    pub prev_zero: [bool; A2L_CAP],
    pub old_zero: [bool; A2L_CAP],
    pub inw: [[u64; 8]; A2L_CAP],
    pub outw: [[u64; 4]; A2L_CAP],
    pub newid: [u64; A2L_CAP],
    pub lh_n: usize,
    pub lh_outlen: [usize; A2L_LH],
    pub lh_inlen: [usize; A2L_LH],
    pub lh_in: [[u8; 72]; A2L_LH],
    pub lh_in_id: [u64; A2L_LH],
    pub lh_in_w0: [u64; A2L_LH],
    pub lh_w0: [u64; A2L_LH],
    pub lh_out: [u8; 64],
}

pub(crate) static mut A2L: A2Log = A2Log {
    magic: 0x4132_4c4f_4721_0001,
    n: 0,
    previd: [0; A2L_CAP], refid: [0; A2L_CAP], oldid: [0; A2L_CAP], xor: [false; A2L_CAP], prev_zero: [false; A2L_CAP], old_zero: [false; A2L_CAP],
    inw: [[0; 8]; A2L_CAP], outw: [[0; 4]; A2L_CAP], newid: [0; A2L_CAP],
    lh_n: 0, lh_outlen: [0; A2L_LH], lh_inlen: [0; A2L_LH], lh_in: [[0; 72]; A2L_LH], lh_in_id: [0; A2L_LH], lh_in_w0: [0; A2L_LH], lh_w0: [0; A2L_LH], lh_out: [0; 64],
};

fn low_words_zero(b: &Block) -> bool {
    let mut z = true;
    let mut i = 0;
    while i < 8 { if b.v[i] != 0 { z = false; } i += 1; }
    z && b.v[127] == 0
}

pub(crate) fn fill_block_stub(prev_block: &Block, ref_block: &Block, next_block: &mut Block, with_xor: bool) {
    unsafe {
        let n = A2L.n;
        assert!(n < A2L_CAP, "A2LOG_CAPACITY: more compression calls than the schedule of this instance has");
        A2L.previd[n] = prev_block.v[127];
        A2L.refid[n] = ref_block.v[127];
        A2L.oldid[n] = next_block.v[127];
        A2L.xor[n] = with_xor;
        A2L.prev_zero[n] = low_words_zero(prev_block);
        A2L.old_zero[n] = low_words_zero(next_block);
        let mut i = 0;
        while i < 8 { A2L.inw[n][i] = ref_block.v[i]; i += 1; }
        let o: [u64; 4] = kani::any();
        A2L.outw[n] = o;
        i = 0;
        while i < 4 { next_block.v[i] = o[i]; i += 1; }
        i = 4;
        while i < 8 { next_block.v[i] = 7; i += 1; }
        let id = 1000 + n as u64;
        next_block.v[127] = id;
        A2L.newid[n] = id;
        A2L.n = n + 1;
    }
}

pub(crate) fn longhash_stub(output: &mut [u8], input: &[u8]) -> Result<(), crate::error::Error> {
    unsafe {
        let n = A2L.lh_n;
        assert!(n < A2L_LH, "A2LOG_CAPACITY: more H' calls than first blocks + tag");
        A2L.lh_outlen[n] = output.len();
        A2L.lh_inlen[n] = input.len();
        let mut i = 0;
        while i < 72 && i < input.len() { A2L.lh_in[n][i] = input[i]; i += 1; }
        if input.len() == 1024 {
            let mut w = [0u8; 8];
            w.copy_from_slice(&input[1016..1024]);
            A2L.lh_in_id[n] = u64::from_le_bytes(w);
            w.copy_from_slice(&input[0..8]);
            A2L.lh_in_w0[n] = u64::from_le_bytes(w);
        }
        if output.len() == 1024 {
            let w0: u64 = kani::any();
            A2L.lh_w0[n] = w0;
            output[0..8].copy_from_slice(&w0.to_le_bytes());
            output[1016..1024].copy_from_slice(&(500 + n as u64).to_le_bytes());
        } else {
            let o: [u8; 64] = kani::any();
            A2L.lh_out = o;
            i = 0;
            while i < output.len() && i < 64 { output[i] = o[i]; i += 1; }
        }
        A2L.lh_n = n + 1;
    }
    Ok(())
}

// index_alpha replaced by a logger returning an arbitrary in-lane index (its own equality with RFC 9106 3.4.1.2 is an
// E2 obligation over all J1); the driver then checks the arguments it is called with and that its result is used.
pub(crate) struct IaLog {
    pub magic: u64,
    pub n: usize,
    pub pass: [u32; A2L_CAP], pub lane: [u32; A2L_CAP], pub slice: [u8; A2L_CAP], pub index: [u32; A2L_CAP],
    pub j1: [u32; A2L_CAP], pub same: [bool; A2L_CAP], pub seg: [u32; A2L_CAP], pub lanelen: [u32; A2L_CAP], pub ret: [u32; A2L_CAP],
}
pub(crate) static mut IAL: IaLog = IaLog {
    magic: 0x4941_4c4f_4721_0002, n: 0,
    pass: [0; A2L_CAP], lane: [0; A2L_CAP], slice: [0; A2L_CAP], index: [0; A2L_CAP], j1: [0; A2L_CAP], same: [false; A2L_CAP], seg: [0; A2L_CAP], lanelen: [0; A2L_CAP], ret: [0; A2L_CAP],
};

pub(crate) fn index_alpha_stub(instance: &Argon2Instance, position: &Argon2Position, pseudo_rand: u32, same_lane: bool) -> u32 {
    unsafe {
        let n = IAL.n;
        assert!(n < A2L_CAP, "A2LOG_CAPACITY: more reference-index computations than positions");
        IAL.pass[n] = position.pass; IAL.lane[n] = position.lane; IAL.slice[n] = position.slice; IAL.index[n] = position.index;
        IAL.j1[n] = pseudo_rand; IAL.same[n] = same_lane; IAL.seg[n] = instance.segment_length; IAL.lanelen[n] = instance.lane_length;
        let r: u32 = kani::any();
        kani::assume(r < instance.lane_length);
        IAL.ret[n] = r;
        IAL.n = n + 1;
        r
    }
}

