// empty: no harness for this include point in this run
