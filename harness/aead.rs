// ---- shared stubs for the AEAD properties (C01, C02, C03, C04, C17) ----
use crate::poly1305::Poly1305;
use crate::types::*;

// Ideal one-time MAC in place of dryoc's Poly1305 (which is proved separately, C07):
// `new` records the key, `update` appends to a byte transcript, `finalize` returns the
// harness-chosen (symbolic) tag of the current instance. Instances are used strictly
// one after another in the code under test, so "current instance" = last `new`.
pub const MAC_CAP: usize = 384;
pub const MAC_INST: usize = 5;

pub fn poly_new_stub<K: ByteArray<32>>(key: &K) -> Poly1305 {
    unsafe {
        let n = AES.mac_new_n;
        assert!(n < MAC_INST, "MAC_INSTANCES: more MAC instances than the harness expects");
        AES.mac_key[n] = *key.as_array();
        AES.mac_len[n] = 0;
        AES.mac_new_n = n + 1;
    }
    Poly1305::default()
}

pub fn poly_update_stub(_s: &mut Poly1305, input: &[u8]) {
    unsafe {
        assert!(AES.mac_new_n > 0, "MAC_ORDER: update before new");
        let n = AES.mac_new_n - 1;
        let mut i = 0;
        while i < input.len() {
            assert!(AES.mac_len[n] < MAC_CAP, "MAC_CAPACITY: MAC transcript longer than the harness expects");
            AES.mac_stream[n][AES.mac_len[n]] = input[i];
            AES.mac_len[n] += 1;
            i += 1;
        }
    }
}

pub fn poly_finalize_stub(_s: &mut Poly1305, output: &mut [u8]) {
    unsafe {
        assert!(AES.mac_new_n > 0, "MAC_ORDER: finalize before new");
        let n = AES.mac_new_n - 1;
        assert!(output.len() >= 16, "MAC_OUTPUT_LEN: finalize needs 16 bytes of output");
        let mut i = 0;
        while i < 16 {
            output[i] = AES.mac_out[n][i];
            i += 1;
        }
        AES.mac_fin_n += 1;
    }
}

// X25519 contract stub: arbitrary shared secret / public key, arguments logged.
pub fn scalarmult_stub(q: &mut [u8; 32], n: &[u8; 32], p: &[u8; 32]) {
    unsafe {
        let k = AES.sm_n;
        assert!(k < 4, "SM_CALLS: more scalar multiplications than the harness expects");
        AES.sm_scalar[k] = *n;
        AES.sm_point[k] = *p;
        let out: [u8; 32] = if AES.sm_fixed { AES.sm_fixed_out } else { kani::any() };
        AES.sm_out[k] = out;
        *q = out;
        AES.sm_n = k + 1;
    }
}
pub fn scalarmult_base_stub(q: &mut [u8; 32], n: &[u8; 32]) {
    unsafe {
        let k = AES.smb_n;
        assert!(k < 2, "SMB_CALLS: more base-point multiplications than the harness expects");
        AES.smb_scalar[k] = *n;
        let out: [u8; 32] = kani::any();
        AES.smb_out[k] = out;
        *q = out;
        AES.smb_n = k + 1;
    }
}

pub fn pad16_spec(n: usize) -> usize { (16 - (n % 16)) % 16 }

// sealed-box nonce = BLAKE2b-24(epk || rpk): replaced by an arbitrary value where the nonce
// derivation is not the subject (it is checked through the compress transcript in C01).
pub fn seal_nonce_stub(nonce: &mut [u8; 24], epk: &[u8; 32], rpk: &[u8; 32]) {
    unsafe {
        AES.sn_epk = *epk;
        AES.sn_rpk = *rpk;
        let out: [u8; 24] = kani::any();
        AES.sn_out = out;
        *nonce = out;
        AES.sn_n += 1;
    }
}

// BLAKE2b finalize replaced by an arbitrary digest (used where the hash value is not the subject)
pub fn b2_finalize_any_stub(s: crate::blake2b::State, output: &mut [u8]) -> Result<(), crate::error::Error> {
    let mut i = 0;
    while i < output.len() {
        output[i] = kani::any();
        i += 1;
    }
    drop(s);
    Ok(())
}

// All mutable harness state of this file lives in ONE static with a unique magic first field: Kani/rustc
// intern allocations by content, so a `static mut X: usize = 0` can end up being the *same object* as an
// unrelated constant with the same bytes (observed: alloc::raw_vec ZERO_CAP aliased to a counter), and
// writing to it would corrupt the program under test.
pub struct AeadState {
    pub magic: u64,
    pub sm_fixed: bool,
    pub sm_fixed_out: [u8; 32],
    pub mac_new_n: usize,
    pub mac_fin_n: usize,
    pub mac_key: [[u8; 32]; MAC_INST],
    pub mac_stream: [[u8; MAC_CAP]; MAC_INST],
    pub mac_len: [usize; MAC_INST],
    pub mac_out: [[u8; 16]; MAC_INST],
    pub sm_n: usize,
    pub sm_scalar: [[u8; 32]; 4],
    pub sm_point: [[u8; 32]; 4],
    pub sm_out: [[u8; 32]; 4],
    pub smb_n: usize,
    pub smb_scalar: [[u8; 32]; 2],
    pub smb_out: [[u8; 32]; 2],
    pub sn_n: usize,
    pub sn_epk: [u8; 32],
    pub sn_rpk: [u8; 32],
    pub sn_out: [u8; 24],
}
pub static mut AES: AeadState = AeadState {
    magic: 0xAEAE00025EEDC0DE,
    sm_fixed: false,
    sm_fixed_out: [0; 32],
    mac_new_n: 0,
    mac_fin_n: 0,
    mac_key: [[0; 32]; MAC_INST],
    mac_stream: [[0; MAC_CAP]; MAC_INST],
    mac_len: [0; MAC_INST],
    mac_out: [[0; 16]; MAC_INST],
    sm_n: 0,
    sm_scalar: [[0; 32]; 4],
    sm_point: [[0; 32]; 4],
    sm_out: [[0; 32]; 4],
    smb_n: 0,
    smb_scalar: [[0; 32]; 2],
    smb_out: [[0; 32]; 2],
    sn_n: 0,
    sn_epk: [0; 32],
    sn_rpk: [0; 32],
    sn_out: [0; 24],
};
