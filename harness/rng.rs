// ---- randomness oracle (stub for <rand_core::OsRng as TryRngCore>::try_fill_bytes, the crate's only source) ----
// every call delivers fresh symbolic bytes, appended to one ordered stream; call j is the span off[j]..off[j]+len[j].
pub const RNG_CALLS: usize = 8;
pub const RNG_STREAM: usize = 400;
pub struct RngState {
    pub magic: u64,
    pub n: usize,
    pub total: usize,
    pub off: [usize; RNG_CALLS],
    pub len: [usize; RNG_CALLS],
    pub stream: [u8; RNG_STREAM],
}
pub static mut RNGS: RngState = RngState { magic: 0x4E47000453EDC0DE, n: 0, total: 0, off: [0; RNG_CALLS], len: [0; RNG_CALLS], stream: [0; RNG_STREAM] };

pub fn rng_oracle_stub(_r: &mut rand_core::OsRng, dest: &mut [u8]) -> Result<(), rand_core::OsError> {
    unsafe {
        let j = RNGS.n;
        assert!(j < RNG_CALLS, "RNG_CALLS: more generator calls than the harness expects");
        assert!(RNGS.total + dest.len() <= RNG_STREAM, "RNG_LEN: more random bytes requested than the harness expects");
        RNGS.off[j] = RNGS.total;
        RNGS.len[j] = dest.len();
        let mut i = 0;
        while i < dest.len() {
            let b: u8 = kani::any();
            dest[i] = b;
            RNGS.stream[RNGS.total] = b;
            RNGS.total += 1;
            i += 1;
        }
        RNGS.n = j + 1;
    }
    Ok(())
}

/// true iff `v` is exactly the output of oracle call `j` over its whole length
pub fn is_rng_output(j: usize, v: &[u8]) -> bool {
    unsafe {
        if j >= RNGS.n || RNGS.len[j] != v.len() { return false; }
        let mut i = 0;
        while i < v.len() {
            if v[i] != RNGS.stream[RNGS.off[j] + i] { return false; }
            i += 1;
        }
        true
    }
}

/// true iff `v` is exactly ALL bytes the generator delivered from stream position `start` on (however many calls that took)
pub fn is_rng_span(start: usize, v: &[u8]) -> bool {
    unsafe {
        if RNGS.total != start + v.len() { return false; }
        let mut i = 0;
        while i < v.len() {
            if v[i] != RNGS.stream[start + i] { return false; }
            i += 1;
        }
        true
    }
}

// Argon2 contract stub: arbitrary output, arguments logged
pub struct A2State {
    pub magic: u64,
    pub n: usize,
    pub t: u32, pub m: u32, pub p: u32,
    pub salt: [u8; 64], pub saltlen: usize,
    pub pw: [u8; 32], pub pwlen: usize,
    pub outlen: usize, pub out: [u8; 128],
    pub ty: u8,
}
pub static mut A2S: A2State = A2State { magic: 0xA2A2000553EDC0DE, n: 0, t: 0, m: 0, p: 0, salt: [0; 64], saltlen: 0, pw: [0; 32], pwlen: 0, outlen: 0, out: [0; 128], ty: 0 };
pub fn argon2_stub(t_cost: u32, m_cost: u32, parallelism: u32, password: &[u8], salt: &[u8], _secret: Option<&[u8]>, _ad: Option<&[u8]>,
                   output: &mut [u8], type_: crate::argon2::Argon2Type) -> Result<(), crate::error::Error> {
    unsafe {
        A2S.t = t_cost; A2S.m = m_cost; A2S.p = parallelism;
        assert!(salt.len() <= 64 && password.len() <= 32 && output.len() <= 128, "A2_CAPACITY: argument longer than the harness expects");
        let mut i = 0;
        while i < salt.len() { A2S.salt[i] = salt[i]; i += 1; }
        A2S.saltlen = salt.len();
        i = 0;
        while i < password.len() { A2S.pw[i] = password[i]; i += 1; }
        A2S.pwlen = password.len();
        let o: [u8; 128] = kani::any();
        i = 0;
        while i < output.len() { output[i] = o[i]; i += 1; }
        A2S.out = o;
        A2S.outlen = output.len();
        A2S.ty = match type_ { crate::argon2::Argon2Type::Argon2i => 1, crate::argon2::Argon2Type::Argon2id => 2 };
        A2S.n += 1;
    }
    Ok(())
}
