"""C12 - key derivation matches libsodium for every subkey length, id and context.

Decided by: Kani/CBMC over the real crypto_kdf_derive_from_key / Kdf::derive_subkey
with dryoc's BLAKE2b compression function replaced by a logging transcript stub
(compress itself is proved equal to RFC 7693 F by the C07 MIR->SMT obligation).
The assertion is that the *single* compress call libsodium/RFC 7693 prescribes for
a keyed hash of the empty message is made, from the chaining value IV ^ P where
P = (digest_length = subkey length, key_length = 32, fanout = depth = 1,
salt = LE64(id) || 0^8, personal = ctx || 0^8), and the output is the first
`len` bytes of the resulting chaining value.
"""
from vlib.engine import Harness, Suite
from vlib import rs, runner

ASSUMPTIONS = [
    "BLAKE2b compress == RFC 7693 F (proved separately: C07 MIR->SMT obligation)",
    "'different ids/contexts/lengths give different subkeys' is decided as: (len, id, ctx) enter the parameter block injectively; "
    "the step to distinct outputs is the idealisation of BLAKE2b",
]
OUTSIDE = ["collision-freeness of BLAKE2b itself"]

BODY = r'''
use crate::classic::crypto_kdf::*;

fn c12_check_transcript(len: usize, id: u64, ctx: &[u8; 8], key: &[u8; 32], sub: &[u8]) {
    unsafe {
        assert!(B2S.b2_n == 1, "KDF_ONE_COMPRESS: keyed hash of the empty message is exactly one compress call");
        let mut salt = [0u8; 16];
        let idb = id.to_le_bytes();
        let mut i = 0;
        while i < 8 { salt[i] = idb[i]; i += 1; }
        let mut pers = [0u8; 16];
        i = 0;
        while i < 8 { pers[i] = ctx[i]; i += 1; }
        let h0 = b2_h0(len as u8, 32, &salt, &pers);
        assert!(B2S.b2_hin[0][0] == h0[0], "KDF_DIGEST_LENGTH: parameter word 0 = (digest_length=len, key_length=32, fanout=1, depth=1)");
        assert!(B2S.b2_hin[0][1] == h0[1] && B2S.b2_hin[0][2] == h0[2] && B2S.b2_hin[0][3] == h0[3], "KDF_PARAM_ZERO_WORDS: leaf/node/inner/reserved are zero");
        assert!(B2S.b2_hin[0][4] == h0[4] && B2S.b2_hin[0][5] == h0[5], "KDF_SALT: salt = LE64(subkey_id) || 0^8");
        assert!(B2S.b2_hin[0][6] == h0[6] && B2S.b2_hin[0][7] == h0[7], "KDF_PERSONAL: personal = context || 0^8");
        assert!(B2S.b2_t[0][0] == 128 && B2S.b2_t[0][1] == 0, "KDF_COUNTER: t = 128 (one key block)");
        assert!(B2S.b2_f[0][0] == u64::MAX && B2S.b2_f[0][1] == 0, "KDF_FINAL_FLAG: f0 = ~0, f1 = 0");
        i = 0;
        while i < 128 {
            let want = if i < 32 { key[i] } else { 0 };
            assert!(B2S.b2_blk[0][i] == want, "KDF_KEY_BLOCK: block = key || 0^96");
            i += 1;
        }
        let ob = b2_out_bytes(&B2S.b2_hout[0]);
        i = 0;
        while i < len {
            assert!(sub[i] == ob[i], "KDF_OUTPUT: subkey = first len bytes of the final chaining value");
            i += 1;
        }
    }
}
'''


def h_lit(name, ln):
    return rs.hdr(("barrier", "fmt", "b2compress")) + r'''
fn %(name)s() {
    let key: [u8; 32] = kani::any();
    let ctx: [u8; 8] = kani::any();
    let id: u64 = kani::any();
    wit!(W_0, &key); wit!(W_1, &ctx); wit!(W_2, &id.to_le_bytes()); wit!(W_3, &[%(ln)du8]);
    let mut buf = [0u8; %(ln)d];
    let r = crypto_kdf_derive_from_key(&mut buf, id, &ctx, &key);
    kani::cover!(r.is_ok(), "derive returned Ok");
    assert!(r.is_ok(), "KDF_ACCEPT: lengths 16..=64 are accepted");
    c12_check_transcript(%(ln)d, id, &ctx, &key, &buf);
}
''' % dict(name=name, ln=ln)


def h_reject_lit(name, ln):
    return rs.hdr(("barrier", "fmt", "b2compress")) + r'''
fn %(name)s() {
    let key: [u8; 32] = kani::any();
    let ctx: [u8; 8] = kani::any();
    let id: u64 = kani::any();
    wit!(W_0, &key); wit!(W_1, &ctx); wit!(W_2, &id.to_le_bytes()); wit!(W_3, &[%(ln)du8]);
    let mut buf = [0u8; %(ln)d];
    let r = crypto_kdf_derive_from_key(&mut buf, id, &ctx, &key);
    kani::cover!(true, "reached");
    assert!(r.is_err(), "KDF_REJECT: lengths outside 16..=64 are rejected");
    unsafe { assert!(B2S.b2_n == 0, "KDF_REJECT_NO_HASH: nothing is hashed for a rejected length"); }
}
''' % dict(name=name, ln=ln)


def h_symlen(name, lo, hi):
    return rs.hdr(("barrier", "fmt", "b2compress")) + r'''
fn %(name)s() {
    let key: [u8; 32] = kani::any();
    let ctx: [u8; 8] = kani::any();
    let id: u64 = kani::any();
    let len: usize = kani::any();
    kani::assume(len >= %(lo)d && len <= %(hi)d);
    wit!(W_0, &key); wit!(W_1, &ctx); wit!(W_2, &id.to_le_bytes()); wit!(W_3, &[len as u8]);
    let mut buf = [0u8; 64];
    let r = crypto_kdf_derive_from_key(&mut buf[..len], id, &ctx, &key);
    assert!(r.is_ok(), "KDF_ACCEPT: lengths 16..=64 are accepted");
    c12_check_transcript(len, id, &ctx, &key, &buf[..len]);
    kani::cover!(len == %(lo)d, "reached with shortest length");
    kani::cover!(len == %(hi)d, "reached with longest length");
}
''' % dict(name=name, lo=lo, hi=hi)


def h_reject(name):
    return rs.hdr(("barrier", "fmt", "b2compress")) + r'''
fn %(name)s() {
    let key: [u8; 32] = kani::any();
    let ctx: [u8; 8] = kani::any();
    let id: u64 = kani::any();
    let len: usize = kani::any();
    kani::assume(len <= 15 || (len >= 65 && len <= 96));
    wit!(W_0, &key); wit!(W_1, &ctx); wit!(W_2, &id.to_le_bytes()); wit!(W_3, &[len as u8]);
    let mut buf = [0u8; 96];
    let r = crypto_kdf_derive_from_key(&mut buf[..len], id, &ctx, &key);
    assert!(r.is_err(), "KDF_REJECT: lengths outside 16..=64 are rejected");
    unsafe { assert!(B2S.b2_n == 0, "KDF_REJECT_NO_HASH: nothing is hashed for a rejected length"); }
    kani::cover!(len == 0, "reached len 0");
    kani::cover!(len == 15, "reached len 15");
    kani::cover!(len == 65, "reached len 65");
}
''' % dict(name=name)


def h_object(name):
    return rs.hdr(("barrier", "fmt", "b2compress")) + r'''
fn %(name)s() {
    use crate::kdf::Kdf;
    use crate::types::*;
    let key: [u8; 32] = kani::any();
    let ctx: [u8; 8] = kani::any();
    let id: u64 = kani::any();
    wit!(W_0, &key); wit!(W_1, &ctx); wit!(W_2, &id.to_le_bytes()); wit!(W_3, &[32u8]);
    let kdf: Kdf<StackByteArray<32>, StackByteArray<8>> = Kdf::from_parts(StackByteArray::from(key), StackByteArray::from(ctx));
    let r: Result<StackByteArray<32>, crate::Error> = kdf.derive_subkey(id);
    assert!(r.is_ok(), "KDF_ACCEPT: object API derives a 32-byte subkey");
    let sub = r.unwrap();
    c12_check_transcript(32, id, &ctx, &key, sub.as_slice());
    kani::cover!(true, "reached");
}
''' % dict(name=name)


def h_twin(name):
    # vacuity twin: same harness as symlen but asserting a wrong digest length -> must be violated
    return rs.hdr(("barrier", "fmt", "b2compress")) + r'''
fn %(name)s() {
    let key: [u8; 32] = kani::any();
    let ctx: [u8; 8] = kani::any();
    let id: u64 = kani::any();
    let mut buf = [0u8; 32];
    let r = crypto_kdf_derive_from_key(&mut buf[..], id, &ctx, &key);
    assert!(r.is_ok());
    unsafe {
        let h0 = b2_h0(32, 33, &[0u8; 16], &[0u8; 16]);
        assert!(B2S.b2_hin[0][0] == h0[0], "TWIN: deliberately wrong key_length, must fail");
    }
}
''' % dict(name=name)


def suites(tier, seed):
    hs, src = [], rs.prelude() + BODY
    fns = ["classic::crypto_kdf::crypto_kdf_derive_from_key", "kdf::Kdf::derive_subkey",
           "blake2b::blake2b_soft::State::{init,init_param,update,finalize}", "blake2b::blake2b_soft::increment_counter"]
    if tier == "quick":
        lens = [16, 17, 24, 31, 32, 33, 48, 63, 64]
        rej = [0, 1, 15, 65, 80]
    else:
        lens = list(range(16, 65))
        rej = list(range(0, 16)) + list(range(65, 81))
    for ln in lens:
        n = "c12_derive_len_%d" % ln
        src += h_lit(n, ln)
        hs.append(Harness(n, unwind=130, timeout=1500, site="crypto_kdf_derive_from_key",
                          desc="symbolic key/context/id, subkey length %d: BLAKE2b transcript == libsodium's" % ln,
                          bounds={"len": ln, "key": "symbolic 32B", "ctx": "symbolic 8B", "id": "symbolic u64"}))
    for ln in rej:
        n = "c12_reject_len_%d" % ln
        src += h_reject_lit(n, ln)
        hs.append(Harness(n, unwind=130, timeout=900, site="crypto_kdf_derive_from_key",
                          desc="length %d is rejected without hashing (symbolic key/context/id)" % ln, bounds={"len": ln}))
    src += h_object("c12_object")
    hs.append(Harness("c12_object", unwind=130, timeout=1500, site="Kdf::derive_subkey",
                      desc="object API (StackByteArray containers) makes the same transcript for 32-byte subkeys", bounds={"len": 32}))
    src += h_twin("c12_twin")
    hs.append(Harness("c12_twin", unwind=130, timeout=900, expect="fail", site="twin", desc="planted wrong expectation must be violated"))
    s = Suite("C12", src, hs, stubs=rs.stub_names(("barrier", "fmt", "b2compress")), functions=fns,
              assumptions=ASSUMPTIONS)
    return [s]


REPLAY_MAIN = r'''
// replay of a C12 counterexample against the real build; oracle values come from
// libsodium (computed by the runner through ctypes) and are pasted in below.
use dryoc::classic::crypto_kdf::crypto_kdf_derive_from_key;
fn main() {
    let key: [u8; 32] = %(key)s;
    let ctx: [u8; 8] = %(ctx)s;
    let id: u64 = %(id)d;
    let len: usize = %(len)d;
    let want: Vec<u8> = vec!%(want)s;
    let want_ok: bool = %(want_ok)s;
    let mut out = vec![0u8; len];
    let r = crypto_kdf_derive_from_key(&mut out, id, &ctx, &key);
    if r.is_ok() != want_ok { println!("MISMATCH accept/reject: dryoc ok={} libsodium ok={}", r.is_ok(), want_ok); std::process::exit(1); }
    if want_ok && out != want { println!("MISMATCH dryoc={:02x?} libsodium={:02x?}", out, want); std::process::exit(1); }
    println!("agree");
}
'''


def sodium_kdf(key, ctx, sid, ln):
    import ctypes
    so = ctypes.CDLL("libsodium.so.23")
    out = ctypes.create_string_buffer(max(ln, 1))
    rc = so.crypto_kdf_derive_from_key(out, ctypes.c_size_t(ln), ctypes.c_uint64(sid), bytes(ctx), bytes(key))
    return rc == 0, list(out.raw[:ln])


def replay(v, scratch):
    w = v.get("witness", {})
    key = (w.get("W_0", []) + [0] * 32)[:32]
    ctx = (w.get("W_1", []) + [0] * 8)[:8]
    sid = int.from_bytes(bytes((w.get("W_2", []) + [0] * 8)[:8]), "little")
    ln = (w.get("W_3", [32]) or [32])[0]
    ok, want = sodium_kdf(key, ctx, sid, ln)
    main = REPLAY_MAIN % dict(key=runner.rust_bytes(key), ctx=runner.rust_bytes(ctx), id=sid, len=ln,
                              want=runner.rust_bytes(want), want_ok="true" if ok else "false")
    outs = runner.native_run(scratch, "c12", main)
    v["replay_input"] = {"key": key, "ctx": ctx, "subkey_id": sid, "len": ln, "libsodium_ok": ok, "libsodium_subkey": want,
                         "program": main}
    repro = any(rc == 1 and "MISMATCH" in o for _, rc, o in outs)
    return repro, "; ".join("%s rc=%s %s" % (p, rc, o.strip()[-200:]) for p, rc, o in outs)
