"""C13 - seeded key generation and Ed25519-to-X25519 conversion match libsodium (dryoc's part).

SHA-512 / BLAKE2b / Argon2 are transcript stubs, curve operations contract stubs. The solver
decides the constructions: box seed -> sk = SHA-512(seed)[0..32] for every seed length
(literal 0, 1, 31, 32, 33, 64, 65, 128), pk = base(sk); kx seed -> sk = BLAKE2b-32(seed),
pk = base(sk); sign seed -> a = clamp(SHA-512(seed)[0..32]), pk = compress(a B),
sk = seed || pk; from_secret_key recomputes pk = base(sk); derive_keypair = Argon2 output ->
from_secret_key; sk_to_curve25519 = clamp(SHA-512(sk[0..32])[0..32]); pk_to_curve25519 =
to_montgomery(decompress(pk)), Err exactly when decompression fails."""
from vlib.engine import Harness, Suite
from vlib import rs, runner

ASSUMPTIONS = [
    "SHA-512, BLAKE2b compress and Argon2 are idealised / proved elsewhere (C07, C09); curve25519-dalek group operations are trusted base",
    "the birational map and therefore 'converted public key = base multiple of converted secret key' is a group-law fact (not solver-checked)",
]
OUTSIDE = ["seed lengths other than the listed literals", "group-law consistency of converted key pairs"]

BODY = r'''
use crate::classic::crypto_box::*;
use crate::classic::crypto_kx::*;
use crate::classic::crypto_sign::*;
use crate::classic::crypto_sign_ed25519::*;
use curve25519_dalek::montgomery::MontgomeryPoint;
use curve25519_dalek::edwards::EdwardsBasepointTable;

pub struct KgState { pub magic: u64, pub bp_n: usize, pub bp_scalar: [u8; 32], pub comp_n: usize, pub comp_out: [u8; 32], pub tm_n: usize, pub tm_out: [u8; 32], pub tf_n: usize, pub tf_out: bool }
pub static mut KGS: KgState = KgState { magic: 0x4B47000C53EDC0DE, bp_n: 0, bp_scalar: [0; 32], comp_n: 0, comp_out: [0; 32], tm_n: 0, tm_out: [0; 32], tf_n: 0, tf_out: true };
fn kg_bp_mul_stub<'a, 'b>(_t: &'a EdwardsBasepointTable, s: &'b Scalar) -> EdwardsPoint where 'a: 'a, 'b: 'b {
    unsafe { KGS.bp_scalar = bytes_of(s); KGS.bp_n += 1; }
    any_point()
}
fn kg_compress_stub(_p: &EdwardsPoint) -> CompressedEdwardsY {
    let o: [u8; 32] = kani::any();
    unsafe { KGS.comp_out = o; KGS.comp_n += 1; }
    CompressedEdwardsY(o)
}
fn kg_to_montgomery_stub(_p: &EdwardsPoint) -> MontgomeryPoint {
    let o: [u8; 32] = kani::any();
    unsafe { KGS.tm_out = o; KGS.tm_n += 1; }
    MontgomeryPoint(o)
}
fn kg_torsion_free_stub(_p: &EdwardsPoint) -> bool {
    let r: bool = kani::any();
    unsafe { KGS.tf_n += 1; KGS.tf_out = r; }
    r
}
fn sha_preset() { unsafe { let a: [u8; 64] = kani::any(); DKS.sha_out[0] = a; } }
fn sha0_is(v: &[u8]) -> bool {
    unsafe {
        if DKS.sha_len[0] != v.len() { return false; }
        let mut i = 0; while i < v.len() { if DKS.sha_stream[0][i] != v[i] { return false; } i += 1; }
        true
    }
}
fn clamp32(h: &[u8]) -> [u8; 32] { let mut a = [0u8; 32]; let mut i = 0; while i < 32 { a[i] = h[i]; i += 1; } a[0] &= 248; a[31] &= 127; a[31] |= 64; a }
'''

ED_EXTRA = [("<&curve25519_dalek::edwards::EdwardsBasepointTable as core::ops::Mul<&curve25519_dalek::scalar::Scalar>>::mul", "kg_bp_mul_stub"),
            ("curve25519_dalek::edwards::EdwardsPoint::compress", "kg_compress_stub"),
            ("curve25519_dalek::edwards::EdwardsPoint::to_montgomery", "kg_to_montgomery_stub")]
A2_STUB = [("crate::argon2::argon2_hash", "argon2_stub")]


def h_box_seed(name, n, via):
    call = {"classic": "let (pk, sk) = crypto_box_seed_keypair(&seed);",
            "object": "let kp: crate::keypair::StackKeyPair = crate::keypair::KeyPair::from_seed(&seed.to_vec()); let pk = *kp.public_key.as_array(); let sk = *kp.secret_key.as_array();"}[via]
    return rs.hdr(("barrier", "fmt", "sha_update", "sha_finalize", "scalarmult_base")) + r'''
fn %(name)s() {
    let seed: [u8; %(n)d] = kani::any();
    wit!(W_0, &seed);
    sha_preset();
    %(call)s
    kani::cover!(true, "returned");
    unsafe {
        assert!(DKS.sha_cur == 1 && sha0_is(&seed), "BOX_SEED_HASH_INPUT: the whole seed (every byte, any length) is hashed with SHA-512");
        let mut i = 0; while i < 32 { assert!(sk[i] == DKS.sha_out[0][i], "BOX_SEED_SK: secret key = first 32 bytes of the digest"); i += 1; }
        assert!(AES.smb_n == 1 && AES.smb_scalar[0] == sk && pk == AES.smb_out[0], "PK_IS_BASE_MULTIPLE: public key = base-point multiple of the secret key");
    }
}
''' % dict(name=name, n=n, call=call)


HS = {}
HS["c13_kx_seed"] = ("crypto_kx_seed_keypair", ("barrier", "fmt", "b2compress", "scalarmult_base"), [], 132, r'''
fn c13_kx_seed() {
    let seed: [u8; 32] = kani::any();
    wit!(W_0, &seed);
    let r = crypto_kx_seed_keypair(&seed);
    kani::cover!(r.is_ok(), "returned Ok");
    assert!(r.is_ok(), "KX_SEED_OK");
    let (pk, sk) = r.unwrap();
    unsafe {
        assert!(B2S.b2_n == 1 && B2S.b2_hin[0] == b2_h0(32, 0, &[0u8; 16], &[0u8; 16]), "KX_SEED_HASH: unkeyed BLAKE2b with a 32-byte digest");
        assert!(B2S.b2_t[0][0] == 32 && B2S.b2_t[0][1] == 0 && B2S.b2_f[0][0] == u64::MAX && B2S.b2_f[0][1] == 0, "KX_SEED_HASH: one final block of 32 bytes");
        let mut i = 0; while i < 128 { let w = if i < 32 { seed[i] } else { 0 }; assert!(B2S.b2_blk[0][i] == w, "KX_SEED_HASH_INPUT: the hash input is the seed"); i += 1; }
        let o = b2_out_bytes(&B2S.b2_hout[0]);
        i = 0; while i < 32 { assert!(sk[i] == o[i], "KX_SEED_SK: secret key = BLAKE2b-32(seed)"); i += 1; }
        assert!(AES.smb_n == 1 && AES.smb_scalar[0] == sk && pk == AES.smb_out[0], "PK_IS_BASE_MULTIPLE: public key = base-point multiple of the secret key");
    }
}
''')
HS["c13_sign_seed"] = ("crypto_sign_seed_keypair", ("barrier", "fmt", "sha_update", "sha_finalize", "fmo"), ED_EXTRA, 132, r'''
fn c13_sign_seed() {
    let seed: [u8; 32] = kani::any();
    wit!(W_0, &seed);
    sha_preset();
    let (pk, sk) = crypto_sign_seed_keypair(&seed);
    kani::cover!(true, "returned");
    unsafe {
        assert!(DKS.sha_cur == 1 && sha0_is(&seed), "SIGN_SEED_HASH_INPUT: SHA-512 over the 32-byte seed");
        let a = clamp32(&DKS.sha_out[0]);
        assert!(DKS.fmo_n == 1 && DKS.fmo_in[0] == a && KGS.bp_n == 1 && KGS.bp_scalar == DKS.fmo_out[0], "SIGN_SEED_SCALAR: a = clamp(SHA-512(seed)[0..32]) multiplies the base point");
        assert!(KGS.comp_n == 1 && pk == KGS.comp_out, "SIGN_SEED_PK: public key = compress(a B)");
        let mut i = 0; while i < 32 { assert!(sk[i] == seed[i] && sk[32 + i] == pk[i], "SIGN_SEED_SK_LAYOUT: secret key = seed || public key"); i += 1; }
    }
}
''')
HS["c13_from_secret_key"] = ("KeyPair::from_secret_key", ("barrier", "fmt", "scalarmult_base"), [], 40, r'''
fn c13_from_secret_key() {
    let skb: [u8; 32] = kani::any();
    wit!(W_0, &skb);
    let kp: crate::keypair::StackKeyPair = crate::keypair::KeyPair::from_secret_key(StackByteArray::from(skb));
    kani::cover!(true, "returned");
    unsafe {
        assert!(kp.secret_key.as_array() == &skb, "FROM_SK_KEEPS_SK: the (possibly unclamped) secret key is kept as given");
        assert!(AES.smb_n == 1 && AES.smb_scalar[0] == skb && kp.public_key.as_array() == &AES.smb_out[0], "PK_IS_BASE_MULTIPLE: public key recomputed as the base-point multiple of the secret key");
    }
}
''')
HS["c13_derive_keypair"] = ("PwHash::derive_keypair", ("barrier", "fmt", "scalarmult_base"), A2_STUB, 70, r'''
fn c13_derive_keypair() {
    use crate::pwhash::*;
    let pw: [u8; 4] = kani::any(); let salt: [u8; 16] = kani::any();
    let r: Result<crate::keypair::StackKeyPair, _> = VecPwHash::derive_keypair(&pw.to_vec(), salt.to_vec(), Config::interactive());
    kani::cover!(r.is_ok(), "derived");
    assert!(r.is_ok(), "DERIVE_OK");
    let kp = r.unwrap();
    unsafe {
        assert!(A2S.n == 1 && A2S.outlen == 32 && A2S.saltlen == 16 && A2S.pwlen == 4 && A2S.ty == 2, "DERIVE_ARGON2: a 32-byte Argon2id hash of (password, salt) with the config's costs");
        assert!(A2S.t == crate::constants::CRYPTO_PWHASH_OPSLIMIT_INTERACTIVE as u32 && A2S.m == (crate::constants::CRYPTO_PWHASH_MEMLIMIT_INTERACTIVE / 1024) as u32 && A2S.p == 1, "DERIVE_ARGON2: costs forwarded");
        let mut i = 0; while i < 16 { assert!(A2S.salt[i] == salt[i], "DERIVE_ARGON2: salt forwarded"); i += 1; }
        i = 0; while i < 4 { assert!(A2S.pw[i] == pw[i], "DERIVE_ARGON2: password forwarded"); i += 1; }
        i = 0; while i < 32 { assert!(kp.secret_key.as_slice()[i] == A2S.out[i], "DERIVE_SK: secret key = the password hash"); i += 1; }
        assert!(AES.smb_n == 1 && &AES.smb_scalar[0][..] == kp.secret_key.as_slice() && kp.public_key.as_slice() == &AES.smb_out[0][..], "PK_IS_BASE_MULTIPLE: public key = base-point multiple of the derived secret key");
    }
}
''')
# the same contract under configurations other than the stock ones: the hash / salt lengths of a Config describe
# PwHash::hash's output, not the key pair; a derived secret key is always the 32-byte Argon2 output, with the config's costs
for _hl, _t, _mkib in ((64, 3, 9000), (16, 5, 8192)):
    HS["c13_derive_keypair_h%d" % _hl] = ("PwHash::derive_keypair", ("barrier", "fmt", "scalarmult_base"), A2_STUB, 70, (r"""
fn c13_derive_keypair_h%(hl)d() {
    use crate::pwhash::*;
    let pw: [u8; 4] = kani::any(); let salt: [u8; 16] = kani::any();
    let cfg = Config::interactive().with_hash_length(%(hl)d).with_salt_length(24).with_opslimit(%(t)d).with_memlimit(%(m)d * 1024);
    let r: Result<crate::keypair::StackKeyPair, _> = VecPwHash::derive_keypair(&pw.to_vec(), salt.to_vec(), cfg);
    kani::cover!(r.is_ok(), "derived");
    if r.is_err() { core::mem::forget(r); assert!(false, "DERIVE_OK"); return; }
    let kp = r.unwrap();
    unsafe {
        assert!(A2S.n == 1 && A2S.outlen == 32 && A2S.saltlen == 16 && A2S.pwlen == 4 && A2S.ty == 2, "DERIVE_ARGON2: a 32-byte Argon2id hash of (password, salt) with the config's costs");
        assert!(A2S.t == %(t)d && A2S.m == %(m)d && A2S.p == 1, "DERIVE_ARGON2: costs forwarded");
        let mut i = 0; while i < 16 { assert!(A2S.salt[i] == salt[i], "DERIVE_ARGON2: salt forwarded"); i += 1; }
        i = 0; while i < 4 { assert!(A2S.pw[i] == pw[i], "DERIVE_ARGON2: password forwarded"); i += 1; }
        i = 0; while i < 32 { assert!(kp.secret_key.as_slice()[i] == A2S.out[i], "DERIVE_SK: secret key = the password hash"); i += 1; }
        assert!(AES.smb_n == 1 && &AES.smb_scalar[0][..] == kp.secret_key.as_slice() && kp.public_key.as_slice() == &AES.smb_out[0][..], "PK_IS_BASE_MULTIPLE: public key = base-point multiple of the derived secret key");
    }
}
""" % dict(hl=_hl, t=_t, m=_mkib)))
HS["c13_sk_to_curve"] = ("crypto_sign_ed25519_sk_to_curve25519", ("barrier", "fmt", "sha_update", "sha_finalize"), [], 132, r'''
fn c13_sk_to_curve() {
    let sk: [u8; 64] = kani::any();
    wit!(W_0, &sk);
    sha_preset();
    let mut x = [0u8; 32];
    crypto_sign_ed25519_sk_to_curve25519(&mut x, &sk);
    kani::cover!(true, "returned");
    unsafe {
        assert!(DKS.sha_cur == 1 && sha0_is(&sk[..32]), "SK_CONVERT_HASH_INPUT: SHA-512 over the seed half of the Ed25519 secret key");
        assert!(x == clamp32(&DKS.sha_out[0]), "SK_CONVERT: X25519 secret = clamp(SHA-512(seed)[0..32])");
    }
}
''')
HS["c13_pk_to_curve"] = ("crypto_sign_ed25519_pk_to_curve25519", ("barrier", "fmt", "decompress", "small_order"),
                          ED_EXTRA + [("curve25519_dalek::edwards::EdwardsPoint::is_torsion_free", "kg_torsion_free_stub")], 40, r'''
fn c13_pk_to_curve() {
    let pk: [u8; 32] = kani::any();
    wit!(W_0, &pk);
    let pre: [u8; 32] = kani::any(); let mut x = pre;
    let r = crypto_sign_ed25519_pk_to_curve25519(&mut x, &pk);
    kani::cover!(r.is_ok(), "conversion succeeds");
    kani::cover!(r.is_err(), "conversion fails");
    unsafe {
        assert!(DKS.dec_n == 1 && DKS.dec_in[0] == pk, "PK_CONVERT_DECODES_PK: the Ed25519 public key is decoded");
        if !DKS.dec_some[0] { assert!(r.is_err(), "PK_CONVERT_VERDICT: a key that does not decode to a curve point is refused"); }
        // libsodium additionally refuses small-order and off-subgroup points; nothing else may be refused (honest keys always convert)
        let small = DKS.small_n > 0 && DKS.small_out[0];
        let off_subgroup = KGS.tf_n > 0 && !KGS.tf_out;
        if r.is_err() { assert!(!DKS.dec_some[0] || small || off_subgroup, "PK_CONVERT_VERDICT: a decodable, large-order, on-subgroup key always converts"); }
        if r.is_ok() { assert!(KGS.tm_n == 1 && x == KGS.tm_out, "PK_CONVERT: X25519 public key = Montgomery form of the decoded point"); }
    }
}
''')


def suites(tier, seed):
    src = rs.prelude() + rs.load("aead.rs") + rs.load("dalek.rs") + rs.load("rng.rs") + BODY
    hs = []
    stubs = set()
    lens = [0, 1, 32, 33, 64] if tier == "quick" else [0, 1, 31, 32, 33, 63, 64, 65, 127, 128]
    for n in lens:
        name = "c13_box_seed_classic_n%d" % n
        src += h_box_seed(name, n, "classic")
        hs.append(Harness(name, unwind=max(132, n + 20), timeout=1200, site="crypto_box_seed_keypair", desc="box key pair from a %d-byte symbolic seed" % n, bounds={"seed_len": n}))
    for n in ([33] if tier == "quick" else [0, 33, 128]):
        name = "c13_box_seed_object_n%d" % n
        src += h_box_seed(name, n, "object")
        hs.append(Harness(name, unwind=max(132, n + 20), timeout=1200, site="KeyPair::from_seed", desc="KeyPair::from_seed, %d-byte symbolic seed" % n, bounds={"seed_len": n}))
    stubs |= set(rs.stub_names(("barrier", "fmt", "sha_update", "sha_finalize", "scalarmult_base")))
    for name, (site, st, extra, unwind, body) in HS.items():
        src += rs.hdr(st, extra=extra) + body
        stubs |= set(rs.stub_names(st, extra=extra))
        hs.append(Harness(name, unwind=unwind, timeout=1200, site=site, desc=site + ": construction transcript with symbolic inputs", bounds={}))
    return [Suite("C13", src, hs, stubs=sorted(stubs),
                  functions=["classic::crypto_box_impl::crypto_box_curve25519xsalsa20poly1305_seed_keypair_inplace", "classic::crypto_kx::crypto_kx_seed_keypair",
                             "classic::crypto_sign_ed25519::{seed_keypair_inplace,clamp_hash,pk_to_curve25519,sk_to_curve25519}", "keypair::KeyPair::{from_secret_key,from_seed}",
                             "pwhash::PwHash::derive_keypair", "classic::crypto_hash::crypto_hash_sha512"],
                  assumptions=ASSUMPTIONS)]


def replay(v, scratch):
    """Native replay against libsodium's constructions (ctypes): seed key pairs and conversions on the witness input."""
    import ctypes
    so = ctypes.CDLL("libsodium.so.23")
    w = (v.get("witness", {}).get("W_0") or [])
    site = v["site"]
    h = v["harness"]
    if site in ("crypto_box_seed_keypair", "KeyPair::from_seed"):
        n = int(h.rsplit("_n", 1)[1])
        seed = bytes((w + [7] * n)[:n])
        dig = ctypes.create_string_buffer(64)
        so.crypto_hash_sha512(dig, seed, ctypes.c_ulonglong(len(seed)))
        sk = dig.raw[:32]
        pk = ctypes.create_string_buffer(32)
        so.crypto_scalarmult_base(pk, sk)
        main = ("use dryoc::classic::crypto_box::crypto_box_seed_keypair;\nfn main() {\n    let seed: Vec<u8> = vec!%s;\n    let (pk, sk) = crypto_box_seed_keypair(&seed);\n"
                "    let wsk: [u8; 32] = %s; let wpk: [u8; 32] = %s;\n    if sk != wsk || pk != wpk { println!(\"MISMATCH box seed keypair differs from libsodium's construction for a %d-byte seed\"); std::process::exit(1); }\n"
                "    println!(\"agree\");\n}\n") % (runner.rust_bytes(list(seed)), runner.rust_bytes(list(sk)), runner.rust_bytes(list(pk.raw)), n)
    elif site == "crypto_sign_ed25519_pk_to_curve25519":
        # every honestly generated key pair must convert, and consistently: search honest keys (seeded, deterministic)
        main = r'''
use dryoc::classic::crypto_sign::*; use dryoc::classic::crypto_sign_ed25519::*; use dryoc::classic::crypto_core::crypto_scalarmult_base;
fn main() {
    let mut seed = [0u8; 32];
    for i in 0u32..300000 {
        seed[..4].copy_from_slice(&i.to_le_bytes()); seed[4] = 0xC1; seed[5] = 0x3D;
        let (pk, sk) = crypto_sign_seed_keypair(&seed);
        let mut x = [0u8; 32];
        if crypto_sign_ed25519_pk_to_curve25519(&mut x, &pk).is_err() { println!("MISMATCH honest Ed25519 public key {:02x?} (seed index {}) does not convert", pk, i); std::process::exit(1); }
        if i % 4096 == 0 {
            let mut xs = [0u8; 32]; crypto_sign_ed25519_sk_to_curve25519(&mut xs, &sk);
            let mut xp = [0u8; 32]; crypto_scalarmult_base(&mut xp, &xs);
            if xp != x { println!("MISMATCH converted pair inconsistent for seed index {}", i); std::process::exit(1); }
        }
    }
    println!("agree");
}
'''
        outs = runner.native_run(scratch, "c13", main, profiles=("release",), timeout=1800)
        v["replay_input"] = {"program": main}
        return any(rc == 1 and "MISMATCH" in o for _, rc, o in outs), "; ".join("%s rc=%s %s" % (p, rc, o.strip()[-300:]) for p, rc, o in outs)
    elif site == "PwHash::derive_keypair":
        # expected keys from libsodium: sk = crypto_pwhash(32 bytes, argon2id13) with the config's costs, pk = base(sk)
        cfgs = {"c13_derive_keypair_h64": (64, 3, 9000), "c13_derive_keypair_h16": (16, 5, 8192), "c13_derive_keypair": (32, 2, 65536)}
        hl, t, mk = cfgs[h]
        wd = v.get("witness", {})
        pw = bytes(((wd.get("W_0") or []) + [0x70] * 4)[:4]); salt = bytes(((wd.get("W_1") or []) + [0x5A] * 16)[:16])
        sk = ctypes.create_string_buffer(32)
        rc = so.crypto_pwhash(sk, ctypes.c_ulonglong(32), pw, ctypes.c_ulonglong(4), salt, ctypes.c_ulonglong(t), ctypes.c_size_t(mk * 1024), 2)
        if rc != 0:
            return None, "libsodium crypto_pwhash failed"
        pk = ctypes.create_string_buffer(32)
        so.crypto_scalarmult_base(pk, sk.raw)
        main = ("use dryoc::pwhash::*; use dryoc::types::*;\nfn main() {\n    let pw: Vec<u8> = vec!%s; let salt: Vec<u8> = vec!%s;\n"
                "    let cfg = Config::interactive().with_hash_length(%d).with_salt_length(24).with_opslimit(%d).with_memlimit(%d * 1024);\n"
                "    let r: Result<dryoc::keypair::StackKeyPair, _> = VecPwHash::derive_keypair(&pw, salt, cfg);\n"
                "    let wsk: [u8; 32] = %s; let wpk: [u8; 32] = %s;\n"
                "    match r {\n        Err(e) => { println!(\"MISMATCH derive_keypair fails under a config with hash_length %d: {:?}\", e); std::process::exit(1); }\n"
                "        Ok(kp) => if kp.secret_key.as_slice() != &wsk[..] || kp.public_key.as_slice() != &wpk[..] { println!(\"MISMATCH derived key pair differs from libsodium's crypto_pwhash(32) + scalarmult_base (config hash_length %d)\"); std::process::exit(1); }\n    }\n"
                "    println!(\"agree\");\n}\n") % (runner.rust_bytes(list(pw)), runner.rust_bytes(list(salt)), hl, t, mk, runner.rust_bytes(list(sk.raw)), runner.rust_bytes(list(pk.raw)), hl, hl)
    else:
        return None, "no native replay template for site %s" % site
    outs = runner.native_run(scratch, "c13", main)
    v["replay_input"] = {"program": main[:4000]}
    return any(rc == 1 and "MISMATCH" in o for _, rc, o in outs), "; ".join("%s rc=%s %s" % (p, rc, o.strip()[-300:]) for p, rc, o in outs)
