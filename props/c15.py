"""C15 - heap and protected containers wipe their bytes before memory is released.
Decided against the ghost allocator: ghost free() scans the whole block recorded at
posix_memalign (zero-filled at allocation) and flags any non-zero byte."""
from vlib.engine import Harness, Suite
from vlib import rs
from props import pmem
from props.pmem_replay import pmem_replay

ASSUMPTIONS = [
    "the ghost allocator hands out zero-filled blocks, so a non-zero byte at free() was written by dryoc",
    "memory the page-aligned allocator never sees (stack copies, StackByteArray) is outside this check (zeroize's derived ZeroizeOnDrop is trusted)",
]
OUTSIDE = ["stack copies of secrets", "operation sequences longer than the stated depth", "lengths other than the listed literals"]

HEAP_BODY = r'''
fn c15_heapbytes_prog(kind: u8) {}
'''


def heap_harness(name, ops, ln):
    """plain (unprotected) HeapBytes / HeapByteArray life cycles"""
    lines = ["    let src: [u8; %d] = kani::any();" % ln, "    wit!(W_0, &src);"]
    if ops[0] == "hb":
        lines += ["    let mut x = HeapBytes::default();", "    x.resize(%d, 0);" % ln, "    x.as_mut_slice().copy_from_slice(&src);"]
    else:
        lines += ["    let mut x = HeapByteArray::<%d>::from(&src);" % ln]
    cur = ln
    for op in ops[1:]:
        if op == "grow":
            cur = cur + pmem.P + 1
            lines.append("    x.resize(%d, 0x5a);" % cur)
        elif op == "shrink":
            cur = 1
            lines.append("    x.resize(1, 0);")
        elif op == "trim":
            cur = cur - 2
            lines.append("    x.resize(%d, 0);" % cur)
        elif op == "clone":
            lines.append("    let y = x.clone(); drop(y);")
        elif op == "lock":
            lines.append("    let x = x.mlock().unwrap();")
        elif op == "ro":
            lines.append("    let x = x.mprotect_readonly().unwrap();")
    lines += ["    drop(x);", '    kani::cover!(true, "sequence reached the end");', "    pm_final(true, false);"]
    return rs.hdr(pmem.STUBS) + "fn %s() {\n%s\n}\n" % (name, "\n".join(lines))


def select(container, ck, ln, seq, tier, rnd):
    if tier == "quick":
        if ck == "hb_locked":
            return True
        if ck in ("hba_stack_mlock", "hb_rolocked"):
            return len(seq) <= 1
        return len(seq) == 0
    # thorough: depth<=2 everywhere; depth 3 at lengths 3 (sub-page) and 5 (page+1) for the heap-bytes constructors, whose
    # resize / clone paths reallocate (the full depth-3 product is ~6000 programs)
    if len(seq) <= 2:
        return True
    return ln in (3, 5) and ck in ("hb_locked", "hb_rolocked")


def suites(tier, seed):
    src, hs = pmem.build_suite("C15", "c15", tier, seed, lens_quick=[3, 5], lens_thorough=[1, 3, 4, 5, 9],
                               depth_quick=2, depth_thorough=3, select=select)
    plain = [("hb",), ("hb", "grow"), ("hb", "shrink"), ("hb", "grow", "shrink"), ("hb", "clone"), ("hb", "grow", "clone"),
             ("hb", "lock"), ("hb", "grow", "lock"), ("hb", "shrink", "lock", "ro"), ("hba",), ("hba", "clone"), ("hba", "lock", "ro"),
             ("hb", "trim"), ("hb", "trim", "lock"), ("hb", "trim", "lock", "ro"), ("hb", "trim", "clone")]
    for ops in plain:
        # lengths: 9 and 11 give capacities that are not a multiple of 8 and, trimmed by 2, stay within the same page count
        for ln in ([3, 5, 11] if tier == "quick" else [1, 3, 4, 5, 9, 10, 11]):
            if "trim" in ops and ln < 9:
                continue
            n = "c15_plain_%s_l%d" % ("_".join(ops), ln)
            src += heap_harness(n, ops, ln)
            hs.append(Harness(n, unwind=44, timeout=900, site="plain:" + "+".join(ops),
                              desc="unprotected %s of %d symbolic secret bytes: %s, drop; every freed block must be all-zero" % (ops[0], ln, ",".join(ops[1:])),
                              bounds={"len": ln, "ops": list(ops), "page": pmem.P}))
    s = Suite("C15", src, hs, features=["nightly"], clibs=[pmem.GHOST],
              stubs=rs.stub_names(pmem.STUBS) + ["libc::{sysconf,posix_memalign,free,mprotect,mlock,munlock,madvise,__errno_location} -> ghost kernel"],
              functions=["protected::PageAlignedAllocator::{allocate,deallocate} (+ Allocator::grow/shrink defaults)", "protected::{HeapBytes,HeapByteArray}::{resize,clone,drop,zeroize}",
                         "protected::Protected::{resize,clone,drop,zeroize}"],
              assumptions=ASSUMPTIONS)
    return [s]


def replay(v, scratch):
    if v["harness"].startswith("c15_plain_"):
        return plain_replay(v, scratch)
    return pmem_replay(v, scratch)


def plain_replay(v, scratch):
    import os
    from vlib import runner
    from vlib.engine import VERIF
    from props.pmem_replay import build_interposer
    h = v["harness"]
    body, _, ln_s = h[len("c15_plain_"):].rpartition("_l")
    ops = body.split("_")
    ln = int(ln_s)
    real = (ln // pmem.P) * 4096 + ln % pmem.P
    w = v.get("witness", {}).get("W_0") or []
    srcb = [b for b in w[:ln]] or [0x5a]
    if not any(srcb):
        srcb = [0x5a]
    lines = ["    let src: [u8; %d] = wsrc::<%d>();" % (real, real)]
    if ops[0] == "hb":
        lines += ["    let mut x = HeapBytes::default();", "    x.resize(%d, 0);" % real, "    x.as_mut_slice().copy_from_slice(&src);"]
    else:
        lines += ["    let mut x = HeapByteArray::<%d>::from(&src);" % real]
    cur = ln
    for op in ops[1:]:
        if op == "grow":
            cur = cur + pmem.P + 1
            lines.append("    x.resize(%d, 0x5a);" % ((cur // pmem.P) * 4096 + cur % pmem.P))
        elif op == "shrink":
            lines.append("    x.resize(1, 0);")
        elif op == "trim":
            cur = cur - 2
            lines.append("    x.resize(%d, 0);" % ((cur // pmem.P) * 4096 + cur % pmem.P))
        elif op == "clone":
            lines.append("    let y = x.clone(); drop(y);")
        elif op == "lock":
            lines.append("    let x = x.mlock().unwrap();")
        elif op == "ro":
            lines.append("    let x = x.mprotect_readonly().unwrap();")
    lines += ["    drop(x);", "    pm_final(true, false);"]
    native = open(os.path.join(VERIF, "replay", "pmem_native.rs")).read()
    main = native + "\nconst WSRC: &[u8] = &%s;\nfn wsrc<const N: usize>() -> [u8; N] { let mut a = [0u8; N]; for i in 0..N { a[i] = WSRC[i %% WSRC.len()]; } a }\nfn prog() {\n%s\n}\nfn main() { prog(); if unsafe { MISMATCHES } != 0 { std::process::exit(1); } println!(\"agree\"); }\n" % (
        runner.rust_bytes(srcb), "\n".join(lines))
    so = build_interposer(scratch)
    outs = runner.native_run(scratch, "pmem", main, features=["nightly"], nightly=True, extra_deps='libc = "0.2"\n', run_env={"LD_PRELOAD": so})
    v["replay_input"] = {"ops": ops, "ghost_len": ln, "src": srcb, "program": main}
    repro = any(rc == 1 and "MISMATCH WIPE_BEFORE_FREE" in o for _, rc, o in outs)
    return repro, "; ".join("%s rc=%s %s" % (p, rc, o.strip()[-300:]) for p, rc, o in outs)
