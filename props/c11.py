"""C11 - every randomised operation draws fresh randomness on every call.

rand_core::OsRng::try_fill_bytes (the crate's single source, src/rng.rs) is replaced by an
oracle whose j-th call returns a fresh symbolic array R_j. For every randomised entry point
the solver must show: the oracle was called during this call, the returned secret / nonce /
header / salt / seed IS the oracle's output of this call byte for byte over its whole length
(for key pairs: the secret is, and the public key is the stubbed base-point image of it),
and a second call draws a different oracle array. "No value repeats / none is all-zero / no
constant byte" then hold with the OS generator's own probability."""
from vlib.engine import Harness, Suite
from vlib import rs, runner

ASSUMPTIONS = [
    "the OS generator (getrandom via rand_core::OsRng) returns independent uniform bytes: distinctness/non-zero/no-constant-byte follow with its probability",
    "X25519 base-point multiplication, Argon2 and the pwhash string encoder are contract stubs that log their arguments",
]
OUTSIDE = ["statistical quality of the OS generator", "locked/heap gen* constructors (nightly feature) are covered for the RNG call by the same NewByteArray::gen code path only"]

RNG_STUB = [("<rand_core::OsRng as rand_core::TryRngCore>::try_fill_bytes", "rng_oracle_stub")]
A2_STUB = [("crate::argon2::argon2_hash", "argon2_stub")]

USES = r'''
use crate::types::*;
fn pwstr_stub(_t: u32, _m: u32, salt: &[u8], _hash: &[u8]) -> String {
    // crypto_pwhash_str's encoder: only the salt it is given matters here
    unsafe {
        let mut i = 0;
        while i < salt.len() && i < 64 { PWS.salt[i] = salt[i]; i += 1; }
        PWS.saltlen = salt.len();
        PWS.n += 1;
    }
    String::new()
}
pub struct PwsState { pub magic: u64, pub n: usize, pub salt: [u8; 64], pub saltlen: usize }
pub static mut PWS: PwsState = PwsState { magic: 0x9757000653EDC0DE, n: 0, salt: [0; 64], saltlen: 0 };
'''

# (name, site, stubs(extra list), body) ; each body ends by asserting FRESH_*
ENTRY = []


def E(name, site, body, stubs=(), extra=(), features=()):
    ENTRY.append(dict(name=name, site=site, body=body, stubs=tuple(stubs), extra=list(extra), features=features))


def simple_keygen(name, site, call, n):
    E(name, site, r'''
    let k = %(call)s;
    kani::cover!(true, "returned");
    unsafe { assert!(RNGS.n == 1, "RNG_CALLED_ONCE: the generator is called exactly once during this call"); }
    assert!(is_rng_output(0, &k[..]), "FRESH_OUTPUT: the returned value is exactly this call's generator output over its whole length");
    assert!(k.len() == %(n)d, "FRESH_LEN: whole length");
    let k2 = %(call)s;
    unsafe { assert!(RNGS.n == 2, "RNG_CALLED_AGAIN: a second call draws again"); }
    assert!(is_rng_output(1, &k2[..]), "FRESH_OUTPUT_2: the second call returns the second draw");
''' % dict(call=call, n=n))


simple_keygen("secretbox_keygen", "crypto_secretbox_keygen", "crate::classic::crypto_secretbox::crypto_secretbox_keygen()", 32)
simple_keygen("kdf_keygen", "crypto_kdf_keygen", "crate::classic::crypto_kdf::crypto_kdf_keygen()", 32)
simple_keygen("generichash_keygen", "crypto_generichash_keygen", "crate::classic::crypto_generichash::crypto_generichash_keygen()", 32)
simple_keygen("shorthash_keygen", "crypto_shorthash_keygen", "crate::classic::crypto_shorthash::crypto_shorthash_keygen()", 16)
simple_keygen("auth_keygen", "crypto_auth_keygen", "crate::classic::crypto_auth::crypto_auth_keygen()", 32)
simple_keygen("onetimeauth_keygen", "crypto_onetimeauth_keygen", "crate::classic::crypto_onetimeauth::crypto_onetimeauth_keygen()", 32)
simple_keygen("stackbytearray_gen_24", "StackByteArray::<24>::gen", "StackByteArray::<24>::gen()", 24)
simple_keygen("array_gen_32", "<[u8; 32]>::gen", "<[u8; 32] as NewByteArray<32>>::gen()", 32)
simple_keygen("vec_gen_32", "<Vec<u8> as NewByteArray<32>>::gen", "<Vec<u8> as NewByteArray<32>>::gen()", 32)
simple_keygen("randombytes_buf_20", "randombytes_buf", "crate::rng::randombytes_buf(20)", 20)

E("randombytes_buf_300", "randombytes_buf", r'''
    let v = crate::rng::randombytes_buf(300);
    kani::cover!(true, "returned");
    assert!(v.len() == 300, "FRESH_LEN: whole length");
    assert!(is_rng_span(0, &v[..]), "FRESH_OUTPUT: every byte of a long buffer is generator output of this call, in order, nothing left unwritten");
''')

E("copy_randombytes_257", "copy_randombytes", r'''
    let mut v = [0u8; 257];
    crate::rng::copy_randombytes(&mut v);
    kani::cover!(true, "returned");
    assert!(is_rng_span(0, &v[..]), "FRESH_OUTPUT: every byte of a long buffer is generator output of this call, in order, nothing left unwritten");
''')

E("pwhash_hash_salt24", "PwHash::hash", r'''
    use crate::pwhash::*;
    let pw: [u8; 4] = kani::any();
    let r: Result<VecPwHash, _> = PwHash::hash(&pw, Config::interactive().with_salt_length(24));
    kani::cover!(r.is_ok(), "hashed");
    assert!(r.is_ok(), "PWHASH_OK: hashing succeeds (Argon2 stubbed)");
    let (_hash, salt, _cfg) = r.unwrap().into_parts();
    unsafe {
        assert!(salt.as_slice().len() == 24 && is_rng_span(0, salt.as_slice()), "FRESH_OUTPUT: a non-default-length salt is generator output over its whole length");
        assert!(A2S.n == 1 && A2S.saltlen == 24 && is_rng_span(0, &A2S.salt[..24]), "FRESH_SALT_USED: Argon2 is run with the fresh salt");
    }
''', extra=A2_STUB)

E("secretstream_keygen", "crypto_secretstream_xchacha20poly1305_keygen", r'''
    let mut k = [0u8; 32];
    crate::classic::crypto_secretstream_xchacha20poly1305::crypto_secretstream_xchacha20poly1305_keygen(&mut k);
    kani::cover!(true, "returned");
    unsafe { assert!(RNGS.n == 1, "RNG_CALLED_ONCE: the generator is called exactly once during this call"); }
    assert!(is_rng_output(0, &k[..]), "FRESH_OUTPUT: the key is exactly this call's generator output");
''')

E("secretbox_keygen_inplace", "crypto_secretbox_keygen_inplace", r'''
    let mut k = [0u8; 32];
    crate::classic::crypto_secretbox::crypto_secretbox_keygen_inplace(&mut k);
    kani::cover!(true, "returned");
    unsafe { assert!(RNGS.n == 1, "RNG_CALLED_ONCE: the generator is called exactly once during this call"); }
    assert!(is_rng_output(0, &k[..]), "FRESH_OUTPUT: the key is exactly this call's generator output");
''')

E("box_keypair", "crypto_box_keypair", r'''
    let (pk, sk) = crate::classic::crypto_box::crypto_box_keypair();
    kani::cover!(true, "returned");
    unsafe { assert!(RNGS.n == 1, "RNG_CALLED_ONCE: the generator is called exactly once during this call"); }
    assert!(is_rng_output(0, &sk[..]), "FRESH_OUTPUT: the secret key is exactly this call's generator output");
    unsafe {
        assert!(AES.smb_n == 1 && AES.smb_scalar[0] == sk, "KEYPAIR_PK_OF_SK: the public key is computed from this secret key");
        assert!(pk == AES.smb_out[0], "KEYPAIR_PK_OF_SK: the public key is the base-point image of the secret key");
    }
    let (_pk2, sk2) = crate::classic::crypto_box::crypto_box_keypair();
    assert!(is_rng_output(1, &sk2[..]), "FRESH_OUTPUT_2: the second call returns the second draw");
''', stubs=("scalarmult_base",))

E("kx_keypair", "crypto_kx_keypair", r'''
    let (pk, sk) = crate::classic::crypto_kx::crypto_kx_keypair();
    kani::cover!(true, "returned");
    unsafe { assert!(RNGS.n == 1, "RNG_CALLED_ONCE: the generator is called exactly once during this call"); }
    assert!(is_rng_output(0, &sk[..]), "FRESH_OUTPUT: the secret key is exactly this call's generator output");
    unsafe { assert!(AES.smb_n == 1 && AES.smb_scalar[0] == sk && pk == AES.smb_out[0], "KEYPAIR_PK_OF_SK: the public key is the base-point image of the secret key"); }
''', stubs=("scalarmult_base",))

E("keypair_gen", "KeyPair::gen", r'''
    let kp: crate::keypair::StackKeyPair = crate::keypair::KeyPair::gen();
    kani::cover!(true, "returned");
    unsafe { assert!(RNGS.n == 1, "RNG_CALLED_ONCE: the generator is called exactly once during this call"); }
    assert!(is_rng_output(0, kp.secret_key.as_slice()), "FRESH_OUTPUT: the secret key is exactly this call's generator output");
    unsafe { assert!(AES.smb_n == 1 && &AES.smb_scalar[0][..] == kp.secret_key.as_slice() && kp.public_key.as_slice() == &AES.smb_out[0][..], "KEYPAIR_PK_OF_SK: the public key is the base-point image of the secret key"); }
''', stubs=("scalarmult_base",))

E("kdf_gen", "Kdf::gen", r'''
    let k: crate::kdf::Kdf<StackByteArray<32>, StackByteArray<8>> = crate::kdf::Kdf::gen();
    kani::cover!(true, "returned");
    let (key, ctx) = k.into_parts();
    unsafe { assert!(RNGS.n == 2, "RNG_CALLED: key and context are two separate draws"); }
    assert!(is_rng_output(0, key.as_slice()), "FRESH_OUTPUT: the main key is exactly generator output of this call");
    assert!(is_rng_output(1, ctx.as_slice()), "FRESH_OUTPUT: the context is exactly generator output of this call");
''')

E("box_seal", "crypto_box_seal", r'''
    let rpk: [u8; 32] = kani::any(); let m: [u8; 3] = kani::any();
    let mut c = [0u8; 3 + 48];
    let macout: [u8; 16] = kani::any(); unsafe { AES.mac_out[0] = macout; }
    let r = crate::classic::crypto_box::crypto_box_seal(&mut c, &m, &rpk);
    kani::cover!(r.is_ok(), "sealed");
    assert!(r.is_ok(), "SEAL_OK: sealing succeeds");
    unsafe {
        assert!(RNGS.n == 1 && RNGS.len[0] == 32, "RNG_CALLED_ONCE: one 32-byte ephemeral secret is drawn during this call");
        assert!(AES.smb_n == 1 && is_rng_output(0, &AES.smb_scalar[0][..]), "FRESH_OUTPUT: the ephemeral secret key is exactly this call's generator output");
        let mut i = 0;
        while i < 32 { assert!(c[i] == AES.smb_out[0][i], "SEAL_EPK_PREFIX: the sealed box starts with the public image of the fresh ephemeral secret"); i += 1; }
        assert!(AES.sm_n == 1 && is_rng_output(0, &AES.sm_scalar[0][..]) && AES.sm_point[0] == rpk, "SEAL_DH_USES_FRESH_SECRET: the DH uses the fresh ephemeral secret and the recipient key");
    }
''', stubs=("scalarmult_base", "scalarmult", "seal_nonce") + rs.MAC)

E("stream_init_push", "crypto_secretstream_xchacha20poly1305_init_push", r'''
    use crate::classic::crypto_secretstream_xchacha20poly1305::*;
    let key: [u8; 32] = kani::any();
    let mut st = State::new(); let mut header = [0u8; 24];
    crypto_secretstream_xchacha20poly1305_init_push(&mut st, &mut header, &key);
    kani::cover!(true, "returned");
    unsafe { assert!(RNGS.n == 1, "RNG_CALLED_ONCE: the generator is called exactly once during this call"); }
    assert!(is_rng_output(0, &header[..]), "FRESH_OUTPUT: the stream header is exactly this call's generator output over all 24 bytes");
    let (_k, n) = st.verif_parts();
    let mut i = 0;
    while i < 8 { assert!(n[4 + i] == header[16 + i], "HEADER_INONCE: the state's nonce part is the header tail"); i += 1; }
''')

E("dryocstream_init_push", "DryocStream::init_push", r'''
    use crate::dryocstream::*;
    let key: [u8; 32] = kani::any();
    let (_st, header): (DryocStream<Push>, Header) = DryocStream::init_push(&key);
    kani::cover!(true, "returned");
    unsafe { assert!(RNGS.n == 1, "RNG_CALLED_ONCE: the generator is called exactly once during this call"); }
    assert!(is_rng_output(0, header.as_slice()), "FRESH_OUTPUT: the stream header is exactly this call's generator output over all 24 bytes");
''')

E("pwhash_hash", "PwHash::hash", r'''
    use crate::pwhash::*;
    let pw: [u8; 4] = kani::any();
    let r: Result<VecPwHash, _> = PwHash::hash(&pw, Config::interactive());
    kani::cover!(r.is_ok(), "hashed");
    assert!(r.is_ok(), "PWHASH_OK: hashing succeeds (Argon2 stubbed)");
    let (_hash, salt, _cfg) = r.unwrap().into_parts();
    unsafe {
        assert!(RNGS.n == 1, "RNG_CALLED_ONCE: the salt is drawn during this call");
        assert!(is_rng_output(0, salt.as_slice()), "FRESH_OUTPUT: the returned salt is exactly this call's generator output");
        assert!(A2S.n == 1 && A2S.saltlen == 16 && is_rng_output(0, &A2S.salt[..16]), "FRESH_SALT_USED: Argon2 is run with the fresh salt");
    }
''', extra=A2_STUB)

E("pwhash_str", "crypto_pwhash_str", r'''
    let pw: [u8; 4] = kani::any();
    let r = crate::classic::crypto_pwhash::crypto_pwhash_str(&pw, crate::constants::CRYPTO_PWHASH_OPSLIMIT_INTERACTIVE, crate::constants::CRYPTO_PWHASH_MEMLIMIT_INTERACTIVE);
    kani::cover!(r.is_ok(), "hashed");
    assert!(r.is_ok(), "PWHASH_OK: hashing succeeds (Argon2 and the encoder stubbed)");
    unsafe {
        assert!(RNGS.n == 1 && RNGS.len[0] == 16, "RNG_CALLED_ONCE: a 16-byte salt is drawn during this call");
        assert!(A2S.n == 1 && A2S.saltlen == 16 && is_rng_output(0, &A2S.salt[..16]), "FRESH_SALT_USED: Argon2 is run with the fresh salt");
        assert!(PWS.n == 1 && PWS.saltlen == 16 && is_rng_output(0, &PWS.salt[..16]), "FRESH_SALT_ENCODED: the encoded string carries the fresh salt");
    }
''', extra=A2_STUB + [("crate::classic::crypto_pwhash::pwhash_to_string", "pwstr_stub")], features=("base64",))

E("sign_keypair", "crypto_sign_keypair", r'''
    let (_pk, sk) = crate::classic::crypto_sign::crypto_sign_keypair();
    kani::cover!(true, "returned");
    unsafe { assert!(RNGS.n == 1 && RNGS.len[0] == 32, "RNG_CALLED_ONCE: a 32-byte seed is drawn during this call"); }
    assert!(is_rng_output(0, &sk[..32]), "FRESH_OUTPUT: the seed half of the secret key is exactly this call's generator output");
''', stubs=("sha_update", "sha_finalize", "fmo"), extra=[("<&curve25519_dalek::edwards::EdwardsBasepointTable as core::ops::Mul<&curve25519_dalek::scalar::Scalar>>::mul", "bp_mul_stub"),
                                                          ("curve25519_dalek::edwards::EdwardsPoint::compress", "compress_stub")])


def suites(tier, seed):
    base = rs.prelude() + rs.load("aead.rs") + rs.load("dalek.rs") + rs.load("rng.rs") + USES + BP
    by_feat = {}
    for e in ENTRY:
        by_feat.setdefault(e["features"], []).append(e)
    out = []
    for feats, es in by_feat.items():
        src = base
        hs = []
        stubs = set()
        for e in es:
            n = "c11_" + e["name"]
            st = ("barrier", "fmt") + e["stubs"]
            src += rs.hdr(st, extra=RNG_STUB + e["extra"]) + "fn %s() {%s}\n" % (n, e["body"])
            stubs |= set(rs.stub_names(st, extra=RNG_STUB + e["extra"]))
            hs.append(Harness(n, unwind=(132 if e["name"] == "sign_keypair" else 310 if e["name"] in ("randombytes_buf_300", "copy_randombytes_257") else 70), timeout=1800, site=e["site"],
                              desc="%s: returned secret/nonce/header/salt == this call's oracle output over its whole length; second call draws again" % e["site"],
                              bounds={"rng": "oracle, fresh symbolic array per call"}))
        # vacuity twin: asserting that a keygen output is a constant must fail
        if not feats:
            src += rs.hdr(("barrier", "fmt"), extra=RNG_STUB) + r'''
fn c11_twin_constant_key() {
    let k = crate::classic::crypto_secretbox::crypto_secretbox_keygen();
    assert!(k[0] == 0, "TWIN: must fail (key bytes are free)");
}
'''
            hs.append(Harness("c11_twin_constant_key", unwind=70, timeout=600, expect="fail", site="twin", desc="vacuity twin"))
        s = Suite("C11", src, hs, features=list(feats), stubs=sorted(stubs), functions=["rng::{copy_randombytes,randombytes_buf}"] + [e["site"] for e in es],
                  assumptions=ASSUMPTIONS)
        s.tag = "e1" + ("-" + "-".join(feats) if feats else "")
        out.append(s)
    return out


BP = r'''
use curve25519_dalek::edwards::EdwardsBasepointTable;
fn bp_mul_stub<'a, 'b>(_t: &'a EdwardsBasepointTable, _s: &'b Scalar) -> EdwardsPoint where 'a: 'a, 'b: 'b { any_point() }
fn compress_stub(_p: &EdwardsPoint) -> CompressedEdwardsY { CompressedEdwardsY(kani::any()) }
'''

REPLAY = {
    "crypto_pwhash_str": r'''
use dryoc::classic::crypto_pwhash::*;
use dryoc::constants::*;
fn main() {
    let a = crypto_pwhash_str(b"pw", CRYPTO_PWHASH_OPSLIMIT_MIN, CRYPTO_PWHASH_MEMLIMIT_MIN).unwrap();
    let b = crypto_pwhash_str(b"pw", CRYPTO_PWHASH_OPSLIMIT_MIN, CRYPTO_PWHASH_MEMLIMIT_MIN).unwrap();
    let salt_a = a.split('$').nth(4).unwrap().to_string();
    let salt_b = b.split('$').nth(4).unwrap().to_string();
    println!("salt fields: {} {}", salt_a, salt_b);
    if salt_a == salt_b { println!("MISMATCH two calls of crypto_pwhash_str produced the same salt ({})", salt_a); std::process::exit(1); }
    println!("agree");
}
''',
}


GENERIC_REPLAY = r'''
// native replay for a randomised entry point: call it many times; a byte position that never changes, an all-zero value
// or a repeated value has probability < 2^-100 for a working generator and reproduces the finding
use dryoc::types::*;
fn sample(i: usize) -> Vec<u8> { let _ = i; %(expr)s }
fn main() {
    let n = 64;
    let vals: Vec<Vec<u8>> = (0..n).map(sample).collect();
    let len = vals[0].len();
    let mut bad = false;
    for pos in 0..len {
        if vals.iter().all(|v| v[pos] == vals[0][pos]) { println!("MISMATCH byte position {} of {} is constant ({:#04x}) over {} calls", pos, len, vals[0][pos], n); bad = true; break; }
    }
    for i in 0..n { if vals[i].iter().all(|b| *b == 0) && len > 0 { println!("MISMATCH all-zero value"); bad = true; }
        for j in 0..i { if vals[i] == vals[j] { println!("MISMATCH repeated value"); bad = true; } } }
    if bad { std::process::exit(1); }
    println!("agree");
}
'''

EXPRS = {
    "randombytes_buf": "dryoc::rng::randombytes_buf(300)",
    "copy_randombytes": "{ let mut v = vec![0u8; 257]; dryoc::rng::copy_randombytes(&mut v); v }",
    "PwHash::hash": "{ use dryoc::pwhash::*; let h: VecPwHash = PwHash::hash(&b\"pw\".to_vec(), Config::interactive().with_salt_length(24).with_opslimit(1).with_memlimit(8192)).unwrap(); let (_h, salt, _c) = h.into_parts(); salt }",
    "crypto_secretbox_keygen": "dryoc::classic::crypto_secretbox::crypto_secretbox_keygen().to_vec()",
    "crypto_kdf_keygen": "dryoc::classic::crypto_kdf::crypto_kdf_keygen().to_vec()",
    "crypto_box_keypair": "dryoc::classic::crypto_box::crypto_box_keypair().1.to_vec()",
    "crypto_kx_keypair": "dryoc::classic::crypto_kx::crypto_kx_keypair().1.to_vec()",
    "crypto_sign_keypair": "dryoc::classic::crypto_sign::crypto_sign_keypair().1[..32].to_vec()",
    "crypto_secretstream_xchacha20poly1305_init_push": "{ use dryoc::classic::crypto_secretstream_xchacha20poly1305::*; let mut st = State::new(); let mut h = [0u8; 24]; crypto_secretstream_xchacha20poly1305_init_push(&mut st, &mut h, &[1u8; 32]); h.to_vec() }",
    "crypto_box_seal": "{ let (pk, _sk) = dryoc::classic::crypto_box::crypto_box_keypair(); let mut c = vec![0u8; 48 + 3]; dryoc::classic::crypto_box::crypto_box_seal(&mut c, b\"abc\", &pk).unwrap(); c[..32].to_vec() }",
}


def replay(v, scratch):
    """Native replay: call the entry point repeatedly; constant bytes / repeats (probability < 2^-100 for a real generator) reproduce."""
    site = v["site"]
    if site in REPLAY:
        main = REPLAY[site]
        feats = ["base64"]
    elif site in EXPRS:
        main = GENERIC_REPLAY % dict(expr=EXPRS[site])
        feats = []
    else:
        return None, "no native replay template for site %s" % site
    outs = runner.native_run(scratch, "c11", main, features=feats)
    v["replay_input"] = {"program": main}
    return any(rc == 1 and "MISMATCH" in o for _, rc, o in outs), "; ".join("%s rc=%s %s" % (p, rc, o.strip()[-300:]) for p, rc, o in outs)
