"""C16 - byte and serde encodings round-trip and enforce fixed lengths.

Decided at the layer dryoc owns: (1) to_bytes / from_bytes / into_parts / from_parts of the
box, secret-box and signed-message objects round-trip and emit libsodium's combined layout
(symbolic bytes, literal payload lengths); (2) the serde Visitors in src/bytes_serde.rs are
driven by a mock Deserializer through BOTH entry points serde formats use - visit_bytes
(bincode & co.) and visit_seq without / with a size hint (JSON & co.) - with k symbolic
elements, k a literal in 0..=2N: fixed-length containers must reject k != N and reproduce
k == N exactly; variable-length containers must reproduce all k bytes; nothing may panic."""
from vlib.engine import Harness, Suite
from vlib import rs, runner
from props import pmem

ASSUMPTIONS = [
    "serde_json / bincode themselves are trusted: they reach dryoc's Visitors only through visit_bytes or visit_seq (JSON: visit_seq without size hint; bincode: visit_bytes / visit_seq with hint)",
    "derived Serialize/Deserialize on the aggregate structs (serde_derive) is trusted",
    "heap / locked containers run against the ghost libc of C14",
]
OUTSIDE = ["text/binary parsing inside serde_json/bincode", "Serialize side (one-line serialize_bytes(as_slice()) impls; not driven by a mock Serializer)", "element counts beyond 2N"]

MOCK = r'''
use crate::types::*;
use serde::de::{self, Deserialize, DeserializeSeed, Deserializer, SeqAccess, Visitor};

#[derive(Debug)]
pub struct MockErr;
impl core::fmt::Display for MockErr { fn fmt(&self, _f: &mut core::fmt::Formatter<'_>) -> core::fmt::Result { Ok(()) } }
impl std::error::Error for MockErr {}
impl de::Error for MockErr { fn custom<T: core::fmt::Display>(_msg: T) -> Self { MockErr } }

pub struct ByteDe<'a> { pub b: &'a [u8] }
impl<'de, 'a> Deserializer<'de> for ByteDe<'a> {
    type Error = MockErr;
    fn deserialize_any<V: Visitor<'de>>(self, v: V) -> Result<V::Value, MockErr> { v.visit_u8(self.b[0]) }
    serde::forward_to_deserialize_any! { bool i8 i16 i32 i64 i128 u8 u16 u32 u64 u128 f32 f64 char str string bytes byte_buf option unit unit_struct newtype_struct seq tuple tuple_struct map struct enum identifier ignored_any }
}

pub struct MockSeq<'a> { pub b: &'a [u8], pub pos: usize, pub hint: Option<usize> }
impl<'de, 'a> SeqAccess<'de> for MockSeq<'a> {
    type Error = MockErr;
    fn next_element_seed<T: DeserializeSeed<'de>>(&mut self, seed: T) -> Result<Option<T::Value>, MockErr> {
        if self.pos >= self.b.len() { return Ok(None); }
        let one = [self.b[self.pos]];
        self.pos += 1;
        seed.deserialize(ByteDe { b: &one }).map(Some)
    }
    fn size_hint(&self) -> Option<usize> { self.hint }
}

/// the format-side driver: hands the Visitor either a byte string or an element sequence
pub struct MockDe<'a> { pub b: &'a [u8], pub as_seq: bool, pub hint: Option<usize> }
impl<'de, 'a> Deserializer<'de> for MockDe<'a> {
    type Error = MockErr;
    fn deserialize_any<V: Visitor<'de>>(self, v: V) -> Result<V::Value, MockErr> {
        if self.as_seq { v.visit_seq(MockSeq { b: self.b, pos: 0, hint: self.hint }) } else { v.visit_bytes(self.b) }
    }
    serde::forward_to_deserialize_any! { bool i8 i16 i32 i64 i128 u8 u16 u32 u64 u128 f32 f64 char str string bytes byte_buf option unit unit_struct newtype_struct seq tuple tuple_struct map struct enum identifier ignored_any }
}
'''


def h_fixed(name, ty, N, k, mode, stubs, extra, uses=""):
    """mode: bytes | seq_nohint | seq_hint"""
    de = {"bytes": "MockDe { b: &src, as_seq: false, hint: None }",
          "seq_nohint": "MockDe { b: &src, as_seq: true, hint: None }",
          "seq_hint": "MockDe { b: &src, as_seq: true, hint: Some(%d) }" % k}[mode]
    if k == N:
        chk = ('assert!(r.is_ok(), "FIXED_LEN_ROUNDTRIP: exactly N bytes decode");\n'
               '    let v = r.unwrap();\n    let mut i = 0; while i < %d { assert!(v.as_slice()[i] == src[i], "FIXED_LEN_ROUNDTRIP: the decoded bytes equal the encoded ones"); i += 1; }') % N
    else:
        chk = 'assert!(r.is_err(), "FIXED_LEN_ENFORCED: decoding a fixed-length value from any other number of bytes fails instead of padding or truncating");'
    # k == 0: the empty input is an empty sub-slice of a real object (a pointer to a zero-sized array is dangling, and CBMC's
    # pointer-difference model then loses the slice length: symbolic reserve size, out of memory)
    decl = "let src: [u8; %d] = kani::any();" % k if k else "let src0: [u8; 1] = kani::any(); let src: &[u8] = &src0[..0];"
    if not k:
        de = de.replace("&src", "src")
    return rs.hdr(stubs, extra=extra) + r'''
fn %(name)s() {
    %(uses)s
    %(decl)s
    wit!(W_0, &src[..]);
    let r: Result<%(ty)s, MockErr> = <%(ty)s as Deserialize>::deserialize(%(de)s);
    kani::cover!(true, "deserialize returned");
    %(chk)s
}
''' % dict(name=name, ty=ty, k=k, de=de, chk=chk, uses=uses, decl=decl)


def h_var(name, ty, k, mode, stubs, extra, uses=""):
    de = {"bytes": "MockDe { b: &src, as_seq: false, hint: None }",
          "seq_nohint": "MockDe { b: &src, as_seq: true, hint: None }",
          "seq_hint": "MockDe { b: &src, as_seq: true, hint: Some(%d) }" % k}[mode]
    # k == 0: the empty input is an empty sub-slice of a real object (a pointer to a zero-sized array is dangling, and CBMC's
    # pointer-difference model then loses the slice length: symbolic reserve size, out of memory)
    decl = "let src: [u8; %d] = kani::any();" % k if k else "let src0: [u8; 1] = kani::any(); let src: &[u8] = &src0[..0];"
    if not k:
        de = de.replace("&src", "src")
    return rs.hdr(stubs, extra=extra) + r'''
fn %(name)s() {
    %(uses)s
    %(decl)s
    wit!(W_0, &src[..]);
    let r: Result<%(ty)s, MockErr> = <%(ty)s as Deserialize>::deserialize(%(de)s);
    kani::cover!(true, "deserialize returned");
    assert!(r.is_ok(), "VAR_LEN_ROUNDTRIP: a variable-length container decodes any number of bytes");
    let v = r.unwrap();
    assert!(v.as_slice().len() == %(k)d, "VAR_LEN_ROUNDTRIP: all bytes are reproduced (no padding, no truncation)");
    let mut i = 0; while i < %(k)d { assert!(v.as_slice()[i] == src[i], "VAR_LEN_ROUNDTRIP: the decoded bytes equal the encoded ones"); i += 1; }
}
''' % dict(name=name, ty=ty, k=k, de=de, uses=uses, decl=decl)


OBJ = r'''
fn c16_secretbox_bytes_n%(n)d() {
    use crate::dryocsecretbox::*;
    let tag: [u8; 16] = kani::any(); let data: [u8; %(n)d] = kani::any();
    let b: DryocSecretBox<Mac, Vec<u8>> = DryocSecretBox::from_parts(StackByteArray::from(tag), data.to_vec());
    let bytes: Vec<u8> = b.to_vec();
    kani::cover!(true, "encoded");
    assert!(bytes.len() == 16 + %(n)d, "LAYOUT: combined form is tag || ciphertext");
    let mut i = 0; while i < 16 { assert!(bytes[i] == tag[i], "LAYOUT: tag first"); i += 1; }
    i = 0; while i < %(n)d { assert!(bytes[16 + i] == data[i], "LAYOUT: ciphertext after the tag"); i += 1; }
    let b2: Result<DryocSecretBox<Mac, Vec<u8>>, _> = DryocSecretBox::from_bytes(&bytes);
    assert!(b2.is_ok(), "BYTES_ROUNDTRIP: from_bytes(to_bytes(x)) parses");
    let (t2, d2) = b2.unwrap().into_parts();
    assert!(t2.as_slice() == &tag[..] && d2.as_slice() == &data[..], "BYTES_ROUNDTRIP: from_bytes(to_bytes(x)) == x");
}
fn c16_box_bytes_n%(n)d() {
    use crate::dryocbox::*;
    let tag: [u8; 16] = kani::any(); let data: [u8; %(n)d] = kani::any(); let epk: [u8; 32] = kani::any();
    let b: VecBox = DryocBox::from_parts(StackByteArray::from(tag), data.to_vec(), None);
    let bytes: Vec<u8> = b.to_vec();
    assert!(bytes.len() == 16 + %(n)d, "LAYOUT: combined form is tag || ciphertext");
    let mut i = 0; while i < 16 { assert!(bytes[i] == tag[i], "LAYOUT: tag first"); i += 1; }
    i = 0; while i < %(n)d { assert!(bytes[16 + i] == data[i], "LAYOUT: ciphertext after the tag"); i += 1; }
    let b2: Result<VecBox, _> = DryocBox::from_bytes(&bytes);
    assert!(b2.is_ok(), "BYTES_ROUNDTRIP: from_bytes(to_bytes(x)) parses");
    let (t2, d2, e2) = b2.unwrap().into_parts();
    assert!(t2.as_slice() == &tag[..] && d2.as_slice() == &data[..] && e2.is_none(), "BYTES_ROUNDTRIP: from_bytes(to_bytes(x)) == x");
    // sealed layout: epk || tag || ciphertext
    let s: VecBox = DryocBox::from_parts(StackByteArray::from(tag), data.to_vec(), Some(StackByteArray::from(epk)));
    let sb: Vec<u8> = s.to_vec();
    kani::cover!(true, "encoded");
    assert!(sb.len() == 48 + %(n)d, "SEALED_LAYOUT: epk || tag || ciphertext");
    i = 0; while i < 32 { assert!(sb[i] == epk[i], "SEALED_LAYOUT: ephemeral key first"); i += 1; }
    i = 0; while i < 16 { assert!(sb[32 + i] == tag[i], "SEALED_LAYOUT: tag second"); i += 1; }
    i = 0; while i < %(n)d { assert!(sb[48 + i] == data[i], "SEALED_LAYOUT: ciphertext last"); i += 1; }
    let s2: Result<VecBox, _> = DryocBox::from_sealed_bytes(&sb);
    assert!(s2.is_ok(), "BYTES_ROUNDTRIP: from_sealed_bytes(to_bytes(x)) parses");
    let (t3, d3, e3) = s2.unwrap().into_parts();
    assert!(t3.as_slice() == &tag[..] && d3.as_slice() == &data[..] && e3.is_some() && e3.unwrap().as_slice() == &epk[..], "BYTES_ROUNDTRIP: from_sealed_bytes(to_bytes(x)) == x");
}
fn c16_signedmessage_bytes_n%(n)d() {
    use crate::sign::*;
    let sig: [u8; 64] = kani::any(); let data: [u8; %(n)d] = kani::any();
    let m: SignedMessage<Signature, Vec<u8>> = SignedMessage::from_parts(StackByteArray::from(sig), data.to_vec());
    let bytes: Vec<u8> = m.to_vec();
    kani::cover!(true, "encoded");
    assert!(bytes.len() == 64 + %(n)d, "LAYOUT: signed message is signature || message");
    let mut i = 0; while i < 64 { assert!(bytes[i] == sig[i], "LAYOUT: signature first"); i += 1; }
    i = 0; while i < %(n)d { assert!(bytes[64 + i] == data[i], "LAYOUT: message after the signature"); i += 1; }
    let m2: Result<SignedMessage<Signature, Vec<u8>>, _> = SignedMessage::from_bytes(&bytes);
    assert!(m2.is_ok(), "BYTES_ROUNDTRIP: from_bytes(to_bytes(x)) parses");
    let (s2, d2) = m2.unwrap().into_parts();
    assert!(s2.as_slice() == &sig[..] && d2.as_slice() == &data[..], "BYTES_ROUNDTRIP: from_bytes(to_bytes(x)) == x");
}
'''

TRYFROM = r'''
fn c16_tryfrom_slice_stack() {
    let buf: [u8; 12] = kani::any();
    let k: usize = kani::any(); kani::assume(k <= 12);
    let r = StackByteArray::<6>::try_from(&buf[..k]);
    kani::cover!(r.is_ok(), "accepting length reachable");
    kani::cover!(r.is_err(), "rejecting length reachable");
    assert!(r.is_ok() == (k == 6), "FIXED_LEN_ENFORCED: TryFrom<&[u8]> accepts exactly N bytes");
    if let Ok(v) = r { let mut i = 0; while i < 6 { assert!(v.as_slice()[i] == buf[i], "FIXED_LEN_ROUNDTRIP: bytes preserved"); i += 1; } }
}
'''

RNG_STUB = [("<rand_core::OsRng as rand_core::TryRngCore>::try_fill_bytes", "rng_oracle_stub")]


def suites(tier, seed):
    base = ("barrier", "fmt")
    # suite 1: stack containers + object byte encodings (features: serde)
    src = rs.prelude() + MOCK
    hs = []
    N = 4
    ks = [0, 3, 4, 5, 8] if tier == "quick" else list(range(0, 2 * N + 1))
    for k in ks:
        for mode in ("bytes", "seq_nohint", "seq_hint"):
            n = "c16_stack%d_%s_k%d" % (N, mode, k)
            src += h_fixed(n, "StackByteArray<%d>" % N, N, k, mode, base, [])
            hs.append(Harness(n, unwind=30, timeout=600, site="StackByteArray::deserialize:" + mode,
                              desc="StackByteArray<%d> from %d symbolic elements via %s" % (N, k, mode), bounds={"N": N, "k": k, "mode": mode}))
    if tier != "quick":
        for k in (15, 16, 17):
            for mode in ("bytes", "seq_nohint"):
                n = "c16_stack16_%s_k%d" % (mode, k)
                src += h_fixed(n, "StackByteArray<16>", 16, k, mode, base, [])
                hs.append(Harness(n, unwind=40, timeout=600, site="StackByteArray::deserialize:" + mode, desc="StackByteArray<16> from %d elements via %s" % (k, mode), bounds={"N": 16, "k": k}))
    for n_ in ([0, 5] if tier == "quick" else [0, 1, 5, 20]):
        # split the three object functions and give each its own header
        parts = (OBJ % dict(n=n_)).strip().split("\nfn ")
        for p in parts:
            body = p if p.startswith("fn ") else "fn " + p
            src += rs.hdr(base) + body + "\n"
        for nm, site in (("c16_secretbox_bytes_n%d" % n_, "DryocSecretBox::{to_vec,from_bytes}"), ("c16_box_bytes_n%d" % n_, "DryocBox::{to_vec,from_bytes,from_sealed_bytes}"),
                         ("c16_signedmessage_bytes_n%d" % n_, "SignedMessage::{to_vec,from_bytes}")):
            hs.append(Harness(nm, unwind=90, timeout=900, site=site, desc="to_bytes/from_bytes/into_parts/from_parts round trip and libsodium layout, payload %d symbolic bytes" % n_, bounds={"payload": n_}))
    src += rs.hdr(base) + TRYFROM
    hs.append(Harness("c16_tryfrom_slice_stack", unwind=30, timeout=600, site="StackByteArray::try_from(&[u8])", desc="symbolic slice length 0..=12 against N = 6", bounds={"k": "0..=12"}))
    s1 = Suite("C16", src, hs, features=["serde"], stubs=rs.stub_names(base),
               functions=["bytes_serde::<StackByteArray as Deserialize>::{visit_seq,visit_bytes}", "dryocsecretbox::DryocSecretBox::{to_bytes,from_bytes,from_parts,into_parts}",
                          "dryocbox::DryocBox::{to_bytes,from_bytes,from_sealed_bytes,from_parts,into_parts}", "sign::SignedMessage::{to_bytes,from_bytes,from_parts,into_parts}",
                          "types::StackByteArray::try_from"], assumptions=ASSUMPTIONS)
    s1.tag = "e1-serde"
    # suite 2: heap / locked containers (features: serde, nightly; ghost libc)
    src2 = rs.prelude() + rs.load("rng.rs") + MOCK + "use crate::protected::*;\n"
    hs2 = []
    kv = [0, 1, 2, 5] if tier == "quick" else [0, 1, 2, 3, 5, 9]
    for k in kv:
        for mode in ("bytes", "seq_nohint", "seq_hint"):
            for ty, tn in (("HeapBytes", "heapbytes"), ("LockedBytes", "lockedbytes")):
                n = "c16_%s_%s_k%d" % (tn, mode, k)
                src2 += h_var(n, ty, k, mode, base, RNG_STUB)
                hs2.append(Harness(n, unwind=44, timeout=900, site=ty + "::deserialize:" + mode, desc="%s from %d symbolic elements via %s" % (ty, k, mode), bounds={"k": k, "mode": mode}))
    for k in ([0, 3, 4, 5] if tier == "quick" else list(range(0, 9))):
        for mode in ("bytes", "seq_nohint", "seq_hint"):
            n = "c16_lockedarray4_%s_k%d" % (mode, k)
            src2 += h_fixed(n, "Locked<HeapByteArray<4>>", 4, k, mode, base, RNG_STUB)
            hs2.append(Harness(n, unwind=44, timeout=900, site="Locked<HeapByteArray>::deserialize:" + mode, desc="Locked<HeapByteArray<4>> from %d symbolic elements via %s" % (k, mode), bounds={"N": 4, "k": k, "mode": mode}))
    s2 = Suite("C16", src2, hs2, features=["serde", "nightly"], clibs=[pmem.GHOST], stubs=rs.stub_names(base, extra=RNG_STUB) + ["libc -> ghost kernel"],
               functions=["bytes_serde::protected::{HeapBytes,LockedBytes,Locked<HeapByteArray>}::deserialize::{visit_seq,visit_bytes}", "protected::HeapBytes::from(&[u8])"],
               assumptions=ASSUMPTIONS)
    s2.tag = "e1-serde-nightly"
    return [s1, s2]


NATIVE_JSON = r'''
// native replay through the real formats: serde_json drives visit_seq (no size hint), bincode drives visit_bytes
#![allow(unused)]
#![cfg_attr(feature = "n", feature(allocator_api))]
use dryoc::types::*;
fn main() {
    let src: Vec<u8> = vec!%(src)s;
    let json = serde_json::to_string(&src).unwrap();
    let mut bc = (src.len() as u64).to_le_bytes().to_vec(); bc.extend_from_slice(&src);   // bincode encoding of a byte string
    let r = std::panic::catch_unwind(|| {
        %(body)s
    });
    match r {
        Err(_) => { println!("MISMATCH panicked"); std::process::exit(1); }
        Ok(false) => { std::process::exit(1); }
        Ok(true) => println!("agree"),
    }
}
'''


def replay_public(v, scratch):
    """the harness body uses only the public API: run it natively with concrete fill-ins for kani::any (its assertions
    become panics whose message names the violated role)"""
    import re
    h = v["harness"]
    m = re.match(r"(c16_\w+_bytes)_n(\d+)$", h)
    if not m:
        return None, "no native replay template for %s" % h
    body = OBJ % dict(n=int(m.group(2)))
    fn = [p for p in re.split(r"(?m)^(?=fn )", body) if p.startswith("fn " + h + "(")][0]
    fn = re.sub(r"(?m)^\s*kani::cover!.*$", "", fn).replace("kani::any()", "fill()").replace("crate::", "dryoc::")
    main = ("#![allow(unused)]\nuse dryoc::types::*;\nuse dryoc::constants::*;\n"
            "fn fill<const N: usize>() -> [u8; N] { let mut a = [0u8; N]; for i in 0..N { a[i] = (i * 37 + 1) as u8; } a }\n" + fn + "\nfn main() { %s(); println!(\"agree\"); }\n" % h)
    outs = runner.native_run(scratch, "c16", main, features=["serde"])
    v["replay_input"] = {"program": main}
    role = v["role"].split(":")[0]
    repro = any(rc not in (0, None) and role in o for _, rc, o in outs)
    return repro, "; ".join("%s rc=%s %s" % (p_, rc, o.strip()[-300:]) for p_, rc, o in outs)


def replay(v, scratch):
    h = v["harness"]
    w = (v.get("witness", {}).get("W_0") or [])
    import re
    m = re.search(r"_k(\d+)$", h)
    k = int(m.group(1)) if m else 0
    src = (w[:k] + [0x11] * k)[:k]
    if not any(src):
        src = [(i * 37 + 1) % 251 for i in range(k)]
    nightly = False
    if h.startswith("c16_stack"):
        N = int(re.match(r"c16_stack(\d+)_", h).group(1))
        ty = "StackByteArray<%d>" % N
        fixed = N
    elif h.startswith("c16_heapbytes"):
        ty, fixed, nightly = "dryoc::protected::HeapBytes", None, True
    elif h.startswith("c16_lockedbytes"):
        ty, fixed, nightly = "dryoc::protected::LockedBytes", None, True
    elif h.startswith("c16_lockedarray4"):
        ty, fixed, nightly = "dryoc::protected::Locked<dryoc::protected::HeapByteArray<4>>", 4, True
    elif "_bytes_n" in h or h == "c16_tryfrom_slice_stack":
        return replay_public(v, scratch)
    else:
        return None, "no native replay template for %s" % h
    via_json = "seq" in h
    dec = ("serde_json::from_str::<%s>(&json).map_err(|_| ())" if via_json else "bincode::deserialize::<%s>(&bc).map_err(|_| ())") % ty
    if fixed is not None and k != fixed:
        body = 'let r = %s; if r.is_ok() { println!("MISMATCH FIXED_LEN_ENFORCED %d elements decoded into a %d-byte value"); false } else { true }' % (dec, k, fixed)
    else:
        body = ('let r = %s; match r { Ok(v) => { if v.as_slice() != &src[..] { println!("MISMATCH %s decoded bytes differ: {:?}", v.as_slice()); false } else { true } }, '
                'Err(_) => { println!("MISMATCH %s valid encoding rejected"); false } }') % (dec, v["role"], v["role"])
    main = NATIVE_JSON % dict(src=runner.rust_bytes(src), body=body)
    outs = runner.native_run(scratch, "c16", main, features=["serde"] + (["nightly"] if nightly else []), nightly=nightly,
                             extra_deps='serde_json = "1"\nbincode = "1"\nserde = "1"\n')
    v["replay_input"] = {"type": ty, "elements": src, "format": "json" if via_json else "bincode", "program": main}
    repro = any(rc == 1 and "MISMATCH" in o for _, rc, o in outs)
    return repro, "; ".join("%s rc=%s %s" % (p, rc, o.strip()[-300:]) for p, rc, o in outs)
