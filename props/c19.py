"""C19 - refused memory locking is reported as an error, never a panic.
The ghost mlock fails from the k-th call on. k is a literal per harness instance, one per
lock request the fault-free run makes (a symbolic k exhausts memory on the io::Error paths,
see DESIGN.md C19); region contents stay symbolic. Every
Result-returning constructor/transition must return Err (no panic is reachable),
and after dropping everything the C14/C15 end-state predicates must hold."""
from vlib.engine import Harness, Suite
from vlib import rs
from props import pmem
from props.pmem_replay import pmem_replay

ASSUMPTIONS = [
    "the fault is ENOMEM from mlock at the k-th and all later calls (k literal, one instance per lock request of the program); other syscalls succeed",
    "non-Result paths (Clone, locked resize, Default, NewBytes for locked types) are outside the statement and are not called in these programs",
]
OUTSIDE = ["faults in mprotect/posix_memalign", "Clone/resize/Default after the fault point (documented to panic)"]


def select(container, ck, ln, seq, tier, rnd):
    if tier == "quick":
        if ck in ("hb_locked", "hba_stack_mlock", "hba_stack_ro"):
            return len(seq) <= 2
        return len(seq) <= 1
    return True


def suites(tier, seed):
    src, hs = pmem.build_suite("C19", "c19", tier, seed, lens_quick=[5], lens_thorough=[1, 4, 5, 9],
                               depth_quick=2, depth_thorough=3, select=select)
    s = Suite("C19", src, hs, features=["nightly"], clibs=[pmem.GHOST],
              stubs=rs.stub_names(pmem.STUBS) + ["libc::{sysconf,posix_memalign,free,mprotect,mlock,munlock,madvise,__errno_location} -> ghost kernel with symbolic mlock fault schedule"],
              functions=["protected::{dryoc_mlock,...}", "protected::Protected::{mlock,munlock,mprotect_*,drop}",
                         "protected::{HeapBytes,HeapByteArray}::{from_slice_into_locked,from_slice_into_readonly_locked,new_locked}", "StackByteArray::{mlock,mprotect_readonly}"],
              assumptions=ASSUMPTIONS)
    return [s]


def replay(v, scratch):
    return pmem_replay(v, scratch)
