"""C04 - opening, verifying and parsing functions are total on untrusted bytes.

Kani instruments every panic, unwrap/expect, arithmetic overflow (overflow-checks on),
slice index and capacity overflow in the compiled code; each harness feeds an entry point a
buffer of literal length L with fully symbolic contents (and symbolic key/nonce/state), the
ideal MAC returns an arbitrary tag (so both the accept and the reject path are explored),
and CBMC must show that no such failure is reachable. Additionally every resize() a parser
performs is checked against the input length ("absurd allocation")."""
from vlib.engine import Harness, Suite
from vlib import rs, runner

ASSUMPTIONS = [
    "the caller's message buffer has the documented size max(0, ciphertext_len - overhead): it is not attacker data",
    "Poly1305 -> ideal MAC with arbitrary output; X25519 / Ed25519 group operations / SHA-512 -> contract stubs with arbitrary results "
    "(their own panic-freedom is trusted base)",
    "Argon2 is stubbed in the password-hash string paths (cost parameters are then irrelevant)",
]
OUTSIDE = ["input lengths beyond the listed literals", "non-ASCII UTF-8 in password-hash strings"]

USES = r'''
use crate::classic::crypto_secretbox::*;
use crate::classic::crypto_box::*;
use crate::classic::crypto_secretstream_xchacha20poly1305::*;
use crate::classic::crypto_sign::*;
use crate::classic::crypto_auth::*;
use crate::classic::crypto_onetimeauth::*;
use crate::dryocsecretbox::DryocSecretBox;
use crate::dryocbox::DryocBox;
use crate::dryocstream::*;
use crate::sign::SignedMessage;
use crate::types::*;

'''


def mac_any():
    return "    let macout: [u8; 16] = kani::any();\n    unsafe { AES.mac_out[0] = macout; }\n"


def classic_sites(L):
    """(name, stubs, body) for classic opens on a ciphertext of literal total length L"""
    S = []
    m16 = max(0, L - 16)
    S.append(("secretbox_open_easy", rs.MAC, """
    let key: [u8; 32] = kani::any(); let nonce: [u8; 24] = kani::any(); let c: [u8; %d] = kani::any();
    wit!(W_0, &key); wit!(W_1, &nonce); wit!(W_2, &c);
    let mut out = [0u8; %d];
    let _r = crypto_secretbox_open_easy(&mut out, &c, &nonce, &key);""" % (L, m16)))
    S.append(("secretbox_open_easy_inplace", rs.MAC, """
    let key: [u8; 32] = kani::any(); let nonce: [u8; 24] = kani::any(); let mut c: [u8; %d] = kani::any();
    wit!(W_0, &key); wit!(W_1, &nonce); wit!(W_2, &c);
    let _r = crypto_secretbox_open_easy_inplace(&mut c, &nonce, &key);""" % L))
    S.append(("box_open_easy", rs.MAC + ("scalarmult",), """
    let pk: [u8; 32] = kani::any(); let sk: [u8; 32] = kani::any(); let nonce: [u8; 24] = kani::any(); let c: [u8; %d] = kani::any();
    wit!(W_0, &pk); wit!(W_1, &nonce); wit!(W_2, &c); wit!(W_3, &sk);
    let mut out = [0u8; %d];
    let _r = crypto_box_open_easy(&mut out, &c, &nonce, &pk, &sk);""" % (L, m16)))
    S.append(("box_open_easy_inplace", rs.MAC + ("scalarmult",), """
    let pk: [u8; 32] = kani::any(); let sk: [u8; 32] = kani::any(); let nonce: [u8; 24] = kani::any(); let mut c: [u8; %d] = kani::any();
    wit!(W_0, &pk); wit!(W_1, &nonce); wit!(W_2, &c); wit!(W_3, &sk);
    let _r = crypto_box_open_easy_inplace(&mut c, &nonce, &pk, &sk);""" % L))
    if L < 48:
        S.append(("box_seal_open", rs.MAC + ("scalarmult", "seal_nonce"), """
    let pk: [u8; 32] = kani::any(); let sk: [u8; 32] = kani::any(); let c: [u8; %d] = kani::any();
    wit!(W_0, &pk); wit!(W_2, &c); wit!(W_3, &sk);
    let mut out = [0u8; 0];
    let _r = crypto_box_seal_open(&mut out, &c, &pk, &sk);""" % L))
    m17 = max(0, L - 17)
    S.append(("secretstream_pull", rs.MAC, """
    let k: [u8; 32] = kani::any(); let n: [u8; 12] = kani::any(); let c: [u8; %d] = kani::any();
    wit!(W_0, &k); wit!(W_1, &n); wit!(W_2, &c);
    let mut st = State::verif_from_parts(k, n);
    let mut out = [0u8; %d]; let mut tag = 0u8;
    let _r = crypto_secretstream_xchacha20poly1305_pull(&mut st, &mut out, &mut tag, &c, None);""" % (L, m17)))
    return S


def object_sites(L):
    S = []
    S.append(("DryocSecretBox_from_bytes_decrypt", rs.MAC, """
    let key: [u8; 32] = kani::any(); let nonce: [u8; 24] = kani::any(); let c: [u8; %d] = kani::any();
    wit!(W_0, &key); wit!(W_1, &nonce); wit!(W_2, &c);
    let b: Result<DryocSecretBox<crate::dryocsecretbox::Mac, Vec<u8>>, _> = DryocSecretBox::from_bytes(&c[..]);
    if let Ok(b) = b { let _m = b.decrypt_to_vec(&nonce, &key); }""" % (L,)))
    S.append(("DryocBox_from_bytes_decrypt", rs.MAC + ("scalarmult",), """
    let pk: [u8; 32] = kani::any(); let sk: [u8; 32] = kani::any(); let nonce: [u8; 24] = kani::any(); let c: [u8; %d] = kani::any();
    wit!(W_0, &pk); wit!(W_1, &nonce); wit!(W_2, &c); wit!(W_3, &sk);
    let b: Result<crate::dryocbox::VecBox, _> = DryocBox::from_bytes(&c[..]);
    if let Ok(b) = b { let _m = b.decrypt_to_vec(&StackByteArray::<24>::from(nonce), &StackByteArray::<32>::from(pk), &sk); }""" % (L,)))
    if L <= 49:
        S.append(("DryocBox_from_sealed_bytes", rs.MAC, """
    let c: [u8; %d] = kani::any();
    wit!(W_2, &c);
    let _b: Result<crate::dryocbox::VecBox, _> = DryocBox::from_sealed_bytes(&c[..]);""" % (L,)))
    S.append(("DryocStream_pull_to_vec", rs.MAC, """
    let key: [u8; 32] = kani::any(); let header: [u8; 24] = kani::any(); let c: [u8; %d] = kani::any();
    wit!(W_0, &key); wit!(W_1, &header); wit!(W_2, &c);
    let mut st = DryocStream::init_pull(&key, &header);
    let cv: Vec<u8> = c.to_vec();
    let _r = st.pull_to_vec(&cv, None);""" % (L,)))
    S.append(("SignedMessage_from_bytes_verify", rs.ED_VERIFY, """
    let pk: [u8; 32] = kani::any(); let c: [u8; %d] = kani::any();
    wit!(W_0, &pk); wit!(W_2, &c);
    let b: Result<SignedMessage<crate::sign::Signature, Vec<u8>>, _> = SignedMessage::from_bytes(&c[..]);
    if let Ok(b) = b { let _v = b.verify(&pk); }""" % (L,)))
    return S


def sign_sites(L):
    S = []
    m = max(0, L - 64)
    S.append(("crypto_sign_open", rs.ED_VERIFY, """
    let pk: [u8; 32] = kani::any(); let c: [u8; %d] = kani::any();
    wit!(W_0, &pk); wit!(W_2, &c);
    let mut out = [0u8; %d];
    let _r = crypto_sign_open(&mut out, &c, &pk);""" % (L, m)))
    return S


def harness(name, stubs, body, extra=()):
    return rs.hdr(("barrier", "fmt") + tuple(stubs), extra=extra) + "fn %s() {\n%s%s\n    kani::cover!(true, \"returned (Ok or Err)\");\n}\n" % (
        name, mac_any() if "mac_new" in stubs else "", body)


RESIZE_STUB = []   # Kani cannot stub impls on generic types (Vec<T, A>); absurd resizes surface as capacity-overflow panics / CBMC max-allocation checks


def pwhash_suite(tier):
    """PwHash::from_string on any record the (stubbed) string parser can return: no panic / overflow (the parser itself is
    out of reach, see C10)"""
    from props import c10
    src = rs.prelude() + rs.load("rng.rs") + c10.BODY
    hs = []
    for hl, sl in ([(32, 16)] if tier == "quick" else [(32, 16), (16, 8), (64, 32)]):
        n = "c04_PwHash_from_string_parsed_h%d_s%d" % (hl, sl)
        src += c10.h_from_string(n, hl, sl)
        hs.append(Harness(n, unwind=80, timeout=900, site="PwHash::from_string", desc="PwHash::from_string + verify on an arbitrary parsed record (all 2^32 x 2^32 costs): no panic / arithmetic overflow", bounds={"hash_len": hl, "salt_len": sl}))
    # needs-rehash on any parsed record with symbolic (opslimit, memlimit): total (Ok), no panic / overflow in the cost conversion
    src += rs.hdr(("barrier", "fmt"), extra=c10.PARSE_STUB) + "\n".join(l for l in c10.H_REHASH.replace("c10_needs_rehash", "c04_needs_rehash_parsed").split("\n") if "REHASH_IFF_COSTS_DIFFER" not in l)  # the answer's value is C10's business
    hs.append(Harness("c04_needs_rehash_parsed", unwind=70, timeout=900, site="crypto_pwhash_str_needs_rehash", desc="crypto_pwhash_str_needs_rehash on an arbitrary parsed record with symbolic 64-bit limits: returns Ok, no panic / arithmetic overflow", bounds={}))
    s = Suite("C04", src, hs, features=["base64"], stubs=rs.stub_names(("barrier", "fmt"), extra=c10.PARSE_STUB + c10.A2_STUB),
              functions=["pwhash::PwHash::{from_string,verify}", "classic::crypto_pwhash::{crypto_pwhash_str_needs_rehash,convert_costs}"], assumptions=["the string parser is a contract stub (C10); Argon2 is a contract stub (C09)"])
    s.tag = "e1-base64"
    return s


def suites(tier, seed):
    return _suites(tier, seed) + [pwhash_suite(tier)]


def _suites(tier, seed):
    src = rs.prelude() + rs.load("aead.rs") + rs.load("dalek.rs") + USES
    hs = []
    stubs = set()
    if tier == "quick":
        classic_L = [0, 1, 15, 16, 17, 18]
        object_L = [0, 15, 16, 17, 18, 49]
        sign_L = [0, 63, 64, 65]
    else:
        classic_L = list(range(0, 20)) + [31, 32, 33, 47, 48, 49, 50]
        object_L = list(range(0, 20)) + [31, 32, 33, 47, 48, 49, 50]
        sign_L = [0, 1, 31, 32, 33, 62, 63, 64, 65, 66, 80]
    for L in classic_L:
        for (nm, st, body) in classic_sites(L):
            n = "c04_%s_L%d" % (nm, L)
            src += harness(n, st, body)
            stubs |= set(rs.stub_names(("barrier", "fmt") + tuple(st)))
            hs.append(Harness(n, unwind=70, timeout=1800, site=nm, desc="%s on %d symbolic bytes: no panic/overflow/OOB reachable" % (nm, L), bounds={"input_len": L}))
    for L in object_L + [64, 65] + [31, 32, 33, 40, 47, 48]:
        for (nm, st, body) in object_sites(L):
            if L in (64, 65) and not nm.startswith("SignedMessage"):
                continue
            if L in (31, 32, 33, 40, 47, 48) and (L in object_L or nm != "DryocBox_from_sealed_bytes"):
                continue
            n = "c04_%s_L%d" % (nm, L)
            src += harness(n, st, body, extra=RESIZE_STUB)
            stubs |= set(rs.stub_names(("barrier", "fmt") + tuple(st)))
            hs.append(Harness(n, unwind=(132 if nm.startswith("SignedMessage") else max(70, L + 20)), timeout=1800, site=nm,
                              desc="%s on %d symbolic bytes: no panic/overflow/OOB/absurd allocation reachable" % (nm, L), bounds={"input_len": L}))
    for L in sign_L:
        for (nm, st, body) in sign_sites(L):
            n = "c04_%s_L%d" % (nm, L)
            src += harness(n, st, body)
            stubs |= set(rs.stub_names(("barrier", "fmt") + tuple(st)))
            hs.append(Harness(n, unwind=max(132, L + 20), timeout=1800, site=nm, desc="%s on %d symbolic bytes" % (nm, L), bounds={"input_len": L}))
    # authentic stream message carrying any tag byte, object API: ideal MAC set to accept
    for L in ([17, 18] if tier == "quick" else [17, 18, 33, 34]):
        n = "c04_DryocStream_pull_authentic_any_tag_L%d" % L
        src += rs.hdr(("barrier", "fmt") + rs.MAC, extra=RESIZE_STUB) + r'''
fn %(n)s() {
    let key: [u8; 32] = kani::any(); let header: [u8; 24] = kani::any(); let c: [u8; %(L)d] = kani::any();
    wit!(W_0, &key); wit!(W_1, &header); wit!(W_2, &c);
    let mut t = [0u8; 16];
    let mut i = 0; while i < 16 { t[i] = c[%(L)d - 16 + i]; i += 1; }
    unsafe { AES.mac_out[0] = t; }      // the presented tag is the MAC: the message is authentic
    let mut st = DryocStream::init_pull(&key, &header);
    let cv: Vec<u8> = c.to_vec();
    let r = st.pull_to_vec(&cv, None);
    kani::cover!(r.is_ok(), "authentic message accepted");
}
''' % dict(n=n, L=L)
        hs.append(Harness(n, unwind=max(70, L + 20), timeout=1800, site="DryocStream_pull_to_vec",
                          desc="authentic %d-byte stream message (MAC accepts), any decrypted tag byte: no panic" % L, bounds={"input_len": L, "tag": "all 256"}))
    # MAC verify functions: fixed-size authenticators, symbolic input lengths on slices
    src += rs.hdr(("barrier", "fmt") + rs.MAC) + r'''
fn c04_onetimeauth_verify() {
    let key: [u8; 32] = kani::any(); let mac: [u8; 16] = kani::any(); let m: [u8; 20] = kani::any();
    let n: usize = kani::any(); kani::assume(n <= 20);
    let macout: [u8; 16] = kani::any(); unsafe { AES.mac_out[0] = macout; }
    let _r = crypto_onetimeauth_verify(&mac, &m[..n], &key);
    kani::cover!(true, "returned");
}
'''
    hs.append(Harness("c04_onetimeauth_verify", unwind=40, timeout=900, site="crypto_onetimeauth_verify", desc="symbolic input length 0..=20", bounds={"input_len": "0..=20"}))
    s1 = Suite("C04", src, hs, stubs=sorted(stubs),
               functions=["classic::crypto_secretbox::{open_easy,open_easy_inplace}", "classic::crypto_box::{open_easy,open_easy_inplace,seal_open}",
                          "classic::crypto_secretstream_xchacha20poly1305::pull", "dryocsecretbox::DryocSecretBox::{from_bytes,decrypt}",
                          "dryocbox::DryocBox::{from_bytes,from_sealed_bytes,decrypt}", "dryocstream::DryocStream::{init_pull,pull,pull_to_vec}",
                          "classic::crypto_sign::crypto_sign_open", "classic::crypto_sign_ed25519::{open,verify_detached_impl}", "sign::SignedMessage::{from_bytes,verify}",
                          "classic::crypto_onetimeauth::crypto_onetimeauth_verify"],
               assumptions=ASSUMPTIONS)
    s1.tag = "e1"
    return [s1]


NATIVE = r'''
#![allow(unused, dead_code)]
use dryoc::classic::crypto_secretbox::*;
use dryoc::classic::crypto_box::*;
use dryoc::classic::crypto_secretstream_xchacha20poly1305::*;
use dryoc::classic::crypto_sign::*;
use dryoc::dryocsecretbox::DryocSecretBox;
use dryoc::dryocbox::DryocBox;
use dryoc::dryocstream::*;
use dryoc::sign::SignedMessage;
use dryoc::types::*;
fn main() {
    let key: [u8; 32] = %(w0)s;
    let pk = key; let k = key;
    let nonce: [u8; 24] = %(w1_24)s;
    let header = nonce;
    let n: [u8; 12] = %(w1_12)s;
    let sk: [u8; 32] = %(w3)s;
    let c: [u8; %(L)d] = %(w2)s;
    let r = std::panic::catch_unwind(|| {
        %(call)s
    });
    if r.is_err() { println!("MISMATCH panicked"); std::process::exit(1); }
    println!("agree");
}
'''

CALLS = {
    "secretbox_open_easy": "let mut out = vec![0u8; %(m16)d]; let _ = crypto_secretbox_open_easy(&mut out, &c, &nonce, &key);",
    "secretbox_open_easy_inplace": "let mut c = c; let _ = crypto_secretbox_open_easy_inplace(&mut c, &nonce, &key);",
    "box_open_easy": "let mut out = vec![0u8; %(m16)d]; let _ = crypto_box_open_easy(&mut out, &c, &nonce, &pk, &sk);",
    "box_open_easy_inplace": "let mut c = c; let _ = crypto_box_open_easy_inplace(&mut c, &nonce, &pk, &sk);",
    "box_seal_open": "let mut out = vec![0u8; 0]; let _ = crypto_box_seal_open(&mut out, &c, &pk, &sk);",
    "secretstream_pull": "let mut st = State::new(); let mut hdr = [0u8; 24]; hdr[16..].copy_from_slice(&n[4..]); crypto_secretstream_xchacha20poly1305_init_pull(&mut st, &hdr, &k); "
                         "let mut out = vec![0u8; %(m17)d]; let mut tag = 0u8; let _ = crypto_secretstream_xchacha20poly1305_pull(&mut st, &mut out, &mut tag, &c, None);",
    "DryocSecretBox_from_bytes_decrypt": "let b: Result<DryocSecretBox<dryoc::dryocsecretbox::Mac, Vec<u8>>, _> = DryocSecretBox::from_bytes(&c[..]); if let Ok(b) = b { let _ = b.decrypt_to_vec(&nonce, &key); }",
    "DryocBox_from_bytes_decrypt": "let b: Result<dryoc::dryocbox::VecBox, _> = DryocBox::from_bytes(&c[..]); if let Ok(b) = b { let _ = b.decrypt_to_vec(&StackByteArray::<24>::from(nonce), &StackByteArray::<32>::from(pk), &sk); }",
    "DryocBox_from_sealed_bytes": "let _b: Result<dryoc::dryocbox::VecBox, _> = DryocBox::from_sealed_bytes(&c[..]);",
    "DryocStream_pull_to_vec": "let mut st = DryocStream::init_pull(&key, &header); let cv: Vec<u8> = c.to_vec(); let _ = st.pull_to_vec(&cv, None);",
    "SignedMessage_from_bytes_verify": "let b: Result<SignedMessage<dryoc::sign::Signature, Vec<u8>>, _> = SignedMessage::from_bytes(&c[..]); if let Ok(b) = b { let _ = b.verify(&pk); }",
    "crypto_sign_open": "let mut out = vec![0u8; %(m64)d]; let _ = crypto_sign_open(&mut out, &c, &pk);",
}


def replay(v, scratch):
    if v["harness"].startswith("c04_PwHash_from_string_parsed"):
        from props import c10
        import re
        m = re.search(r"_h(\d+)_s(\d+)", v["harness"])
        return c10.replay_from_string(v, scratch, int(m.group(1)), int(m.group(2)))
    if v["harness"].startswith("c04_needs_rehash"):
        from props import c10
        return c10.replay_rehash(v, scratch)
    return _replay(v, scratch)


def _replay(v, scratch):
    """Native replay: the same call on the witness bytes; a panic (or abort) reproduces the finding.
    For the authentic-any-tag stream harness the witness cannot be used directly (the real MAC differs from the
    ideal one), so the replay produces an authentic message natively by pushing with a raw tag byte."""
    h = v["harness"]
    site = v["site"]
    w = v.get("witness", {})

    def wb(slot, n):
        b = (w.get(slot) or [])[:n]
        return runner.rust_bytes(b + [0] * (n - len(b)))
    if h.startswith("c04_DryocStream_pull_authentic_any_tag"):
        main = r'''
use dryoc::classic::crypto_secretstream_xchacha20poly1305::*;
use dryoc::dryocstream::*;
fn main() {
    let key = [7u8; 32];
    for tag in 0u16..=255 {
        let mut st = State::new(); let mut header = [0u8; 24];
        crypto_secretstream_xchacha20poly1305_init_push(&mut st, &mut header, &key);
        let mut c = vec![0u8; 1 + 17];
        crypto_secretstream_xchacha20poly1305_push(&mut st, &mut c, b"x", None, tag as u8).unwrap();
        let r = std::panic::catch_unwind(|| { let mut pull = DryocStream::init_pull(&key, &header); let _ = pull.pull_to_vec(&c, None); });
        if r.is_err() { println!("MISMATCH panicked on authentic message with tag byte {}", tag); std::process::exit(1); }
    }
    println!("agree");
}
'''
        outs = runner.native_run(scratch, "c04", main)
    else:
        L = int(h.rsplit("_L", 1)[1])
        call = CALLS[site] % dict(m16=max(0, L - 16), m17=max(0, L - 17), m64=max(0, L - 64))
        w1 = (w.get("W_1") or [])
        main = NATIVE % dict(w0=wb("W_0", 32), w1_24=runner.rust_bytes((w1 + [0] * 24)[:24]), w1_12=runner.rust_bytes((w1 + [0] * 12)[:12]),
                             w3=wb("W_3", 32), w2=wb("W_2", L), L=L, call=call)
        outs = runner.native_run(scratch, "c04", main)
    v["replay_input"] = {"site": site, "program": main}
    repro = any((rc == 1 and "MISMATCH" in o) or rc == 101 or rc == 134 or (rc < 0 and rc not in (-9, -100)) for _, rc, o in outs)
    return repro, "; ".join("%s rc=%s %s" % (p, rc, o.strip()[-300:]) for p, rc, o in outs)
