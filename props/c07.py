"""C07 - hash, MAC and core primitives equal their specifications on every input.

Kernels (E2, MIR -> z3, all inputs, full width): BLAKE2b compress == RFC 7693 F; SipHash-2-4 whole function for each
listed input length (incl. >= 256 bytes, where the length byte wraps); HSalsa20 / HChaCha20 incl. caller-supplied
constants; little-endian increment; Poly1305 new (clamp + limb split), the block step (no overflow, limb invariant,
congruence mod 2^130 - 5 in witness form) from ANY state in the invariant, and finalize (full reduction + pad).
Drivers (E1, Kani/CBMC, kernels replaced by transcript stubs): BLAKE2b parameter block, block / counter / final-flag
sequence and output truncation for generic hashing (keyed and unkeyed, literal lengths around the 128-byte block);
Poly1305 update/finalize buffering (16-byte blocks in order, padded last block with partial = true);
HMAC-SHA-512-256 ipad/opad/inner/outer structure and SHA-512 padding at the compress512 level; verify functions
accept exactly the authenticator."""
import json
import os
import subprocess

from vlib.engine import Harness, Suite, VERIF, log
from vlib import rs, runner

ASSUMPTIONS = [
    "function == spec follows from kernel == spec kernel (E2, all inputs) and driver transcript == spec driver (E1) by composition: equal inputs to equal functions",
    "SHA-512's compression function is the sha2 crate's (trusted base); dryoc's use of it is checked at the compress512 transcript level, with the idealisation that its outputs do not collide",
    "the MIR text dump (-Zunpretty=mir) is a faithful rendering of the code rustc compiles; the executor is validated by concrete runs against the references",
]
OUTSIDE = ["BLAKE2b inputs >= 2^64 bytes; last_node / tree mode (not reachable through the API)",
           "driver lengths beyond the listed literals (the drivers' control depends on len mod block and len vs block only - stated, not proved)",
           "Poly1305 finalize with a non-empty buffer is covered as transcript (E1) + block step with partial = true (E2), not as one query"]

E2_FUNCTIONS = ["blake2b::blake2b_soft::compress (+ closures g, round, load_u64_le, rotr64)", "siphash24::siphash24 (+ round closure, rotl64)",
                "classic::crypto_core::{crypto_core_hchacha20, crypto_core_hsalsa20, chacha20_quarterround, chacha20_round, salsa20_rotl32, load_u32_le}",
                "utils::increment_bytes", "poly1305::poly1305_soft::Poly1305::{new, blocks, finalize} (+ mul, shr, lo, load_u64_le)"]

BODY = r'''
use crate::classic::crypto_generichash::*;
use crate::classic::crypto_onetimeauth::*;
use crate::classic::crypto_auth::*;
use generic_array::GenericArray;
use generic_array::typenum::U128;

// Poly1305::blocks transcript
pub struct PbState { pub magic: u64, pub n: usize, pub len: usize, pub stream: [u8; 160], pub partial_calls: usize, pub partial_at: usize, pub partial_len: usize }
pub static mut PBS: PbState = PbState { magic: 0x5042000D53EDC0DE, n: 0, len: 0, stream: [0; 160], partial_calls: 0, partial_at: 0, partial_len: 0 };
fn poly_blocks_stub(_s: &mut Poly1305, input: &[u8], partial: bool) {
    unsafe {
        assert!(input.len() % 16 == 0, "POLY_BLOCKS_WHOLE: blocks() is only ever given whole 16-byte blocks");
        if partial { PBS.partial_calls += 1; PBS.partial_at = PBS.len; PBS.partial_len = input.len(); }
        else { assert!(PBS.partial_calls == 0, "POLY_PARTIAL_LAST: the padded partial block is the last one"); }
        let mut i = 0;
        while i < input.len() { assert!(PBS.len < 160, "POLY_CAPACITY"); PBS.stream[PBS.len] = input[i]; PBS.len += 1; i += 1; }
        PBS.n += 1;
    }
}

// SHA-512 compress512 transcript: (state in, block, state out) per block
pub const SC_CAP: usize = 8;
pub struct ScState { pub magic: u64, pub n: usize, pub sin: [[u64; 8]; SC_CAP], pub blk: [[u8; 128]; SC_CAP], pub sout: [[u64; 8]; SC_CAP] }
pub static mut SCS: ScState = ScState { magic: 0x5343000E53EDC0DE, n: 0, sin: [[0; 8]; SC_CAP], blk: [[0; 128]; SC_CAP], sout: [[0; 8]; SC_CAP] };
fn compress512_log_stub(state: &mut [u64; 8], blocks: &[GenericArray<u8, U128>]) {
    unsafe {
        let mut b = 0;
        while b < blocks.len() {
            let n = SCS.n;
            assert!(n < SC_CAP, "SHA_CAPACITY: more SHA-512 blocks than the harness expects");
            SCS.sin[n] = *state;
            let mut i = 0;
            while i < 128 { SCS.blk[n][i] = blocks[b][i]; i += 1; }
            let o: [u64; 8] = kani::any();
            // ideal compression function: outputs do not collide with the IV or with each other (chains are told apart by their chaining values)
            kani::assume(o != SHA512_IV);
            let mut p = 0;
            while p < n { kani::assume(o != SCS.sout[p]); p += 1; }
            SCS.sout[n] = o;
            *state = o;
            SCS.n = n + 1;
            b += 1;
        }
    }
}
pub const SHA512_IV: [u64; 8] = [0x6a09e667f3bcc908, 0xbb67ae8584caa73b, 0x3c6ef372fe94f82b, 0xa54ff53a5f1d36f1, 0x510e527fade682d1, 0x9b05688c2b3e6c1f, 0x1f83d9abfb41bd6b, 0x5be0cd19137e2179];
fn be_bytes(s: &[u64; 8]) -> [u8; 64] {
    let mut o = [0u8; 64]; let mut i = 0;
    while i < 8 { let b = s[i].to_be_bytes(); let mut j = 0; while j < 8 { o[8 * i + j] = b[j]; j += 1; } i += 1; }
    o
}
/// byte `i` of the SHA-512 padded stream of a `total`-byte message whose bytes are given by `get`
fn sha_padded_byte(i: usize, total: usize, padded: usize, msg: u8) -> u8 {
    if i < total { msg } else if i == total { 0x80 } else if i < padded - 8 { 0 } else { (((total as u64) * 8) >> (8 * (padded - 1 - i))) as u8 }
}
'''

PB_STUB = [("crate::poly1305::poly1305_soft::Poly1305::blocks", "poly_blocks_stub")]
SC_STUB = [("sha2::sha512::compress512", "compress512_log_stub")]


def h_generichash(name, mlen, outlen, keylen, call=None):
    nblocks = max(1, ((128 if keylen else 0) + mlen + 127) // 128)     # keyed + empty message: the key block alone (and final)
    call = call or "let r = crypto_generichash(&mut out, &m, %s);" % ("Some(&key)" if keylen else "None")
    return rs.hdr(("barrier", "fmt", "b2compress")) + r'''
fn %(name)s() {
    let m: [u8; %(mlen)d] = kani::any(); let key: [u8; %(klen)d] = kani::any();
    wit!(W_0, &m[..if %(mlen)d < 160 { %(mlen)d } else { 160 }]); wit!(W_1, &key);
    let mut out = [0u8; %(outlen)d];
    %(call)s
    kani::cover!(r.is_ok(), "hashed");
    assert!(r.is_ok(), "B2_ACCEPT: digest length 16..=64 and key length 0 or 16..=64 are accepted");
    unsafe {
        assert!(B2S.b2_n == %(nblocks)d, "B2_BLOCK_COUNT: one compression per 128-byte block (key block first when keyed; an empty message is one block)");
        assert!(B2S.b2_hin[0] == b2_h0(%(outlen)d, %(klen)d, &[0u8; 16], &[0u8; 16]), "B2_PARAM_BLOCK: h0 = IV ^ (digest_length, key_length, fanout = depth = 1)");
        let mut b = 0;
        while b < %(nblocks)d {
            if b > 0 { assert!(B2S.b2_hin[b] == B2S.b2_hout[b - 1], "B2_CHAINING: each block starts from the previous chaining value"); }
            let last = b == %(nblocks)d - 1;
            let total = (if %(klen)d > 0 { 128 } else { 0 }) + %(mlen)d;
            let t = if last { total } else { 128 * (b + 1) };
            assert!(B2S.b2_t[b][0] == t as u64 && B2S.b2_t[b][1] == 0, "B2_COUNTER: t = number of input bytes so far (key block counts as 128)");
            assert!(B2S.b2_f[b][0] == (if last { u64::MAX } else { 0 }) && B2S.b2_f[b][1] == 0, "B2_FINAL_FLAG: only the last block carries f0 = ~0; f1 = 0");
            let mut i = 0;
            while i < 128 {
                let pos = 128 * b + i;   // position in key-block || message
                let want = if %(klen)d > 0 && pos < 128 { if pos < %(klen)d { key[pos] } else { 0 } }
                           else { let mp = pos - (if %(klen)d > 0 { 128 } else { 0 }); if mp < %(mlen)d { m[mp] } else { 0 } };
                assert!(B2S.b2_blk[b][i] == want, "B2_BLOCK_BYTES: blocks are the zero-padded key block followed by the message, zero-padded");
                i += 1;
            }
            b += 1;
        }
        let ob = b2_out_bytes(&B2S.b2_hout[%(nblocks)d - 1]);
        let mut i = 0; while i < %(outlen)d { assert!(out[i] == ob[i], "B2_OUTPUT: digest = first digest_length bytes of the final chaining value"); i += 1; }
    }
}
''' % dict(name=name, mlen=mlen, outlen=outlen, klen=keylen, call=call, nblocks=nblocks)


def h_b2_reject(name, outlen, keylen):
    ok = (16 <= outlen <= 64) and (keylen == 0 or 16 <= keylen <= 64)
    return rs.hdr(("barrier", "fmt", "b2compress")) + r'''
fn %(name)s() {
    let m: [u8; 3] = kani::any(); let key: [u8; %(kl)d] = kani::any();
    let mut out = [0u8; %(ol)d];
    let r = crypto_generichash(&mut out, &m, %(keyarg)s);
    kani::cover!(true, "returned");
    assert!(r.is_ok() == %(ok)s, "B2_RANGES: digest lengths 16..=64 and key lengths 0 or 16..=64 are accepted, everything else is rejected");
}
''' % dict(name=name, ol=outlen, kl=keylen, keyarg=("Some(&key)" if keylen else "None"), ok=("true" if ok else "false"))


def h_poly(name, mlen, via, call=None):
    call = call or {"oneshot": "let mut mac = [0u8; 16]; crypto_onetimeauth(&mut mac, &m, &key);",
                    "verify": "let mac: [u8; 16] = kani::any(); let _ = crypto_onetimeauth_verify(&mac, &m, &key);"}[via]
    return rs.hdr(("barrier", "fmt"), extra=PB_STUB) + r'''
fn %(name)s() {
    let m: [u8; %(mlen)d] = kani::any(); let key: [u8; 32] = kani::any();
    wit!(W_0, &m); wit!(W_1, &key);
    %(call)s
    kani::cover!(true, "returned");
    unsafe {
        let full = (%(mlen)d / 16) * 16; let rem = %(mlen)d - full;
        let mut i = 0;
        while i < full { assert!(PBS.stream[i] == m[i], "POLY_FULL_BLOCKS: the message's whole 16-byte blocks are processed in order with the 2^128 bit"); i += 1; }
        if rem == 0 {
            assert!(PBS.partial_calls == 0 && PBS.len == full, "POLY_NO_PAD_WHEN_ALIGNED: a message that is a multiple of 16 bytes gets no extra block");
        } else {
            assert!(PBS.partial_calls == 1 && PBS.partial_at == full && PBS.partial_len == 16 && PBS.len == full + 16, "POLY_LAST_BLOCK: exactly one final padded block, processed without the 2^128 bit");
            i = 0;
            while i < 16 { let want = if i < rem { m[full + i] } else if i == rem { 1 } else { 0 }; assert!(PBS.stream[full + i] == want, "POLY_LAST_BLOCK_PAD: remainder || 0x01 || zeros"); i += 1; }
        }
    }
}
''' % dict(name=name, mlen=mlen, call=call)


def h_hmac(name, mlen, call=None):
    call = call or "crypto_auth(&mut mac, &m, &key);"
    padded = ((128 + mlen + 17 + 127) // 128) * 128
    nin = padded // 128
    return rs.hdr(("barrier", "fmt"), extra=SC_STUB) + r'''
fn %(name)s() {
    let m: [u8; %(mlen)d] = kani::any(); let key: [u8; 32] = kani::any();
    wit!(W_0, &m); wit!(W_1, &key);
    let mut mac = [0u8; 32];
    %(call)s
    kani::cover!(true, "returned");
    unsafe {
        // identify the two chains by their first block (ipad / opad), whatever order the code hashes them in
        assert!(SCS.n == %(nin)d + 2, "HMAC_BLOCK_COUNT: inner hash of (128 + len) bytes, outer hash of (128 + 64) bytes");
        let mut ii = usize::MAX; let mut oi = usize::MAX;
        let mut b = 0;
        while b < SCS.n {
            if SCS.sin[b] == SHA512_IV {
                let mut is_i = true; let mut is_o = true; let mut i = 0;
                while i < 128 { let k = if i < 32 { key[i] } else { 0 }; if SCS.blk[b][i] != (k ^ 0x36) { is_i = false; } if SCS.blk[b][i] != (k ^ 0x5c) { is_o = false; } i += 1; }
                if is_i { ii = b; } if is_o { oi = b; }
            }
            b += 1;
        }
        assert!(ii != usize::MAX && oi != usize::MAX, "HMAC_PADS: inner chain starts with (key ^ 0x36..), outer chain with (key ^ 0x5c..), both from the SHA-512 IV");
        // inner chain: message + SHA-512 padding for a (128 + len)-byte stream
        let mut cur = SCS.sout[ii]; let mut done = 1usize; let mut pos = 128usize;
        while done < %(nin)d {
            let mut f = usize::MAX; b = 0;
            while b < SCS.n { if b != ii && b != oi && SCS.sin[b] == cur { f = b; } b += 1; }
            assert!(f != usize::MAX, "HMAC_INNER_CHAIN: the inner hash continues from its own chaining value");
            let mut i = 0;
            while i < 128 { let mb = if pos - 128 < %(mlen)d { m[pos - 128] } else { 0 }; assert!(SCS.blk[f][i] == sha_padded_byte(pos, 128 + %(mlen)d, %(padded)d, mb), "HMAC_INNER_INPUT: inner hash input is ipad-block || message, SHA-512 padded"); pos += 1; i += 1; }
            cur = SCS.sout[f]; done += 1;
        }
        let ih = be_bytes(&cur);
        // outer chain: opad-block || inner digest
        let mut f = usize::MAX; b = 0;
        while b < SCS.n { if b != oi && SCS.sin[b] == SCS.sout[oi] { let mut same = true; let mut i = 0; while i < 64 { if SCS.blk[b][i] != ih[i] { same = false; } i += 1; } if same { f = b; } } b += 1; }
        assert!(f != usize::MAX, "HMAC_OUTER_INPUT: the outer hash absorbs the 64-byte inner digest after the opad block");
        let mut i = 64; while i < 128 { assert!(SCS.blk[f][i] == sha_padded_byte(128 + i, 192, 256, 0), "HMAC_OUTER_INPUT: SHA-512 padding of a 192-byte stream"); i += 1; }
        let oh = be_bytes(&SCS.sout[f]);
        i = 0; while i < 32 { assert!(mac[i] == oh[i], "HMAC_TRUNCATION: the authenticator is the first 32 bytes of the outer digest"); i += 1; }
    }
}
''' % dict(name=name, mlen=mlen, nin=nin, padded=padded, call=call)


H_VERIFY = r'''
fn c07_verify_onetimeauth() {
    let m: [u8; 5] = kani::any(); let key: [u8; 32] = kani::any(); let mac: [u8; 16] = kani::any();
    let out: [u8; 16] = kani::any(); unsafe { AES.mac_out[0] = out; }
    let r = crypto_onetimeauth_verify(&mac, &m, &key);
    kani::cover!(r.is_ok(), "accept reachable"); kani::cover!(r.is_err(), "reject reachable");
    assert!(r.is_ok() == (mac == out), "VERIFY_EXACT: verify accepts exactly the authenticator (all 16 bytes)");
}
'''
H_VERIFY_AUTH = r'''
fn c07_verify_auth() {
    let m: [u8; 5] = kani::any(); let key: [u8; 32] = kani::any(); let mac: [u8; 32] = kani::any();
    let r = crypto_auth_verify(&mac, &m, &key);
    kani::cover!(r.is_ok(), "accept reachable"); kani::cover!(r.is_err(), "reject reachable");
    unsafe {
        // the computed authenticator is the truncated state of the LAST compress512 call (the outer hash's final block)
        let oh = be_bytes(&SCS.sout[SCS.n - 1]);
        let mut same = true; let mut i = 0; while i < 32 { if mac[i] != oh[i] { same = false; } i += 1; }
        assert!(r.is_ok() == same, "VERIFY_EXACT: verify accepts exactly the authenticator (all 32 bytes)");
    }
}
'''


def suites(tier, seed):
    src = rs.prelude() + rs.load("aead.rs") + BODY
    hs = []
    b2 = [(0, 32, 0), (1, 16, 0), (128, 64, 0), (129, 32, 32), (256, 33, 16)] if tier == "quick" else \
         [(0, 32, 0), (1, 16, 0), (127, 17, 0), (128, 64, 0), (129, 32, 32), (255, 63, 64), (256, 33, 16), (257, 48, 17), (0, 64, 64), (384, 32, 0)]
    for (mlen, outlen, klen) in b2:
        n = "c07_generichash_m%d_o%d_k%d" % (mlen, outlen, klen)
        src += h_generichash(n, mlen, outlen, klen)
        hs.append(Harness(n, unwind=max(132, 2 * mlen + 12), timeout=2400, site="crypto_generichash",
                          desc="BLAKE2b driver: %d-byte message, %d-byte digest, %d-byte key (symbolic bytes): compress transcript == RFC 7693" % (mlen, outlen, klen),
                          bounds={"mlen": mlen, "outlen": outlen, "keylen": klen}))
    for (ol, kl) in ([(15, 0), (65, 0), (32, 15), (32, 65), (16, 16), (64, 64)] if tier == "quick" else [(0, 0), (1, 0), (15, 0), (65, 0), (80, 0), (32, 1), (32, 15), (32, 65), (16, 16), (64, 64), (16, 64)]):
        n = "c07_generichash_ranges_o%d_k%d" % (ol, kl)
        src += h_b2_reject(n, ol, kl)
        hs.append(Harness(n, unwind=132, timeout=1800, site="crypto_generichash", desc="digest length %d, key length %d: accepted iff in range" % (ol, kl), bounds={"outlen": ol, "keylen": kl}))
    pl = [0, 1, 15, 16, 17, 33] if tier == "quick" else [0, 1, 15, 16, 17, 31, 32, 33, 47, 48, 49, 63, 64, 65, 127, 128, 129]
    for mlen in pl:
        n = "c07_poly_driver_m%d" % mlen
        src += h_poly(n, mlen, "oneshot")
        hs.append(Harness(n, unwind=max(40, mlen + 10), timeout=1200, site="crypto_onetimeauth", desc="Poly1305 update/finalize buffering for a %d-byte symbolic message: blocks() transcript" % mlen, bounds={"mlen": mlen}))
    for mlen in ([0, 5, 111] if tier == "quick" else [0, 1, 5, 111, 112, 127, 128, 129]):     # 112 (one more compression): ~13 min, thorough only
        n = "c07_hmac_m%d" % mlen
        src += h_hmac(n, mlen)
        hs.append(Harness(n, unwind=max(132, mlen + 10), timeout=3000, mem_gb=(28 if mlen >= 112 else 12), site="crypto_auth", desc="HMAC-SHA-512-256 structure for a %d-byte symbolic message at the compress512 transcript level" % mlen, bounds={"mlen": mlen}))
    src += rs.hdr(("barrier", "fmt") + rs.MAC) + H_VERIFY
    hs.append(Harness("c07_verify_onetimeauth", unwind=40, timeout=900, site="crypto_onetimeauth_verify", desc="Ok <=> all 16 bytes equal (ideal MAC output symbolic)", bounds={}))
    src += rs.hdr(("barrier", "fmt"), extra=SC_STUB) + H_VERIFY_AUTH
    hs.append(Harness("c07_verify_auth", unwind=132, timeout=1800, site="crypto_auth_verify", desc="Ok <=> all 32 bytes equal (hash outputs symbolic)", bounds={}))
    return [Suite("C07", src, hs, stubs=rs.stub_names(("barrier", "fmt", "b2compress") + rs.MAC, extra=PB_STUB + SC_STUB),
                  functions=["classic::crypto_generichash::crypto_generichash", "classic::generichash_blake2b::*", "blake2b::blake2b_soft::{hash,State::init,init_param,update,finalize,increment_counter}",
                             "classic::crypto_onetimeauth::{crypto_onetimeauth,crypto_onetimeauth_verify}", "poly1305::poly1305_soft::Poly1305::{update,finalize}",
                             "classic::crypto_auth::{crypto_auth,crypto_auth_verify,hmacsha512256_*}", "sha512::Sha512::{new,update,finalize_into_bytes}"],
                  assumptions=ASSUMPTIONS)]


def mir_dump(scratch, logdir):
    out = os.path.join(scratch.dir, "mir.txt")
    if os.path.exists(out) and os.path.getsize(out) > 100000:
        return out
    env = dict(os.environ)
    env["CARGO_NET_OFFLINE"] = "true"
    env["CARGO_TARGET_DIR"] = os.path.join(scratch.dir, "target-mir")
    subprocess.run(["touch", os.path.join(scratch.repo, "src", "lib.rs")])
    with open(out, "w") as f, open(os.path.join(logdir, "mir.err"), "w") as e:
        r = subprocess.run(["cargo", "+nightly", "rustc", "--offline", "--lib", "--", "-Zunpretty=mir", "-C", "debug-assertions=off", "-C", "overflow-checks=on"],
                           cwd=scratch.repo, env=env, stdout=f, stderr=e, timeout=1800)
    if r.returncode != 0 or os.path.getsize(out) < 100000:
        raise RuntimeError("MIR dump failed, see %s" % os.path.join(logdir, "mir.err"))
    return out


def e2(tier, seed, scratch, logdir):
    os.makedirs(logdir, exist_ok=True)
    mir = mir_dump(scratch, logdir)
    sip = "0,1,7,8,9,15,16,17,255,256,257" if tier == "quick" else ",".join(str(i) for i in list(range(0, 66)) + [127, 128, 129, 255, 256, 257, 300, 511, 512, 513, 1100])
    outp = os.path.join(logdir, "e2.json")
    cmd = ["python3-vt", os.path.join(VERIF, "mir2smt", "kernels.py"), mir, outp, "blake2b", "siphash:" + sip, "hchacha20", "hsalsa20", "increment", "poly1305"]
    with open(os.path.join(logdir, "e2.log"), "w") as f:
        subprocess.run(cmd, stdout=f, stderr=subprocess.STDOUT, timeout=7200, cwd=os.path.join(VERIF, "mir2smt"))
    items = json.load(open(outp))
    site_of = lambda n: n.split(".")[0]
    for it in items:
        it["site"] = "E2:" + site_of(it["name"])
        it["role"] = "KERNEL_SPEC:" + it["name"]
        log("  e2 %-46s %-8s %6.1fs %s" % (it["name"], it["status"], it["secs"], (it.get("error") or "")[:80]))
    return items


REPLAY_SIP = r'''
use dryoc::classic::crypto_shorthash::crypto_shorthash;
fn main() {
    let data: Vec<u8> = vec!%(data)s; let key: [u8; 16] = %(key)s; let want: [u8; 8] = %(want)s;
    let mut out = [0u8; 8];
    crypto_shorthash(&mut out, &data, &key);
    if out != want { println!("MISMATCH siphash24 len {} dryoc={:02x?} libsodium={:02x?}", data.len(), out, want); std::process::exit(1); }
    println!("agree");
}
'''

REPLAY_POLY = r'''
use dryoc::classic::crypto_onetimeauth::crypto_onetimeauth;
fn main() {
    let msg: Vec<u8> = vec!%(msg)s; let key: [u8; 32] = %(key)s; let want: [u8; 16] = %(want)s;
    let mut mac = [0u8; 16];
    crypto_onetimeauth(&mut mac, &msg, &key);
    if mac != want { println!("MISMATCH poly1305 dryoc={:02x?} libsodium={:02x?}", mac, want); std::process::exit(1); }
    println!("agree");
}
'''

REPLAY_HCORE = r'''
use dryoc::classic::crypto_core::*;
fn main() {
    let key: [u8; 32] = %(key)s; let inp: [u8; 16] = %(inp)s; let want: [u8; 32] = %(want)s;
    let mut out = [0u8; 32];
    %(fn)s(&mut out, &inp, &key, None);
    if out != want { println!("MISMATCH %(fn)s dryoc={:02x?} libsodium={:02x?}", &out[..8], &want[..8]); std::process::exit(1); }
    println!("agree");
}
'''


def replay(v, scratch):
    """E2 counterexamples are replayed through the public API against libsodium (ctypes); E1 driver findings through a
    differential run against libsodium over the boundary lengths."""
    import ctypes
    so = ctypes.CDLL("libsodium.so.23")
    name = v["harness"]
    model = v.get("witness") or {}
    if v.get("e2") and name.startswith("siphash24_len"):
        n = int(name[len("siphash24_len"):].split(".")[0])
        dw = model.get("data_words", []); kw = model.get("key_words", [0, 0])
        data = b"".join(int(x).to_bytes(8, "little") for x in dw)
        data = (data + bytes(n))[:n]
        key = b"".join(int(x).to_bytes(8, "little") for x in kw)
        out = ctypes.create_string_buffer(8)
        so.crypto_shorthash(out, data, ctypes.c_ulonglong(len(data)), key)
        main = REPLAY_SIP % dict(data=runner.rust_bytes(list(data)), key=runner.rust_bytes(list(key)), want=runner.rust_bytes(list(out.raw)))
    elif v.get("e2") and name.startswith("poly1305_finalize"):
        # reach the model's accumulator value with r = 1: the accumulator is then the plain sum of (block + 2^128)
        h = model.get("h", [0, 0, 0]); pad = model.get("pad", [0, 0])
        val = h[0] + (h[1] << 44) + (h[2] << 88)
        k = max(1, min(4, val >> 128))
        rest = val - k * (1 << 128)
        blocks = []
        for i in range(k):
            take = min(rest, (1 << 128) - 1)
            blocks.append(take); rest -= take
        if rest != 0 or val < (1 << 128):
            return None, "model accumulator not reachable with r = 1"
        msg = b"".join(b.to_bytes(16, "little") for b in blocks)
        key = (1).to_bytes(16, "little") + pad[0].to_bytes(8, "little") + pad[1].to_bytes(8, "little")
        out = ctypes.create_string_buffer(16)
        so.crypto_onetimeauth(out, msg, ctypes.c_ulonglong(len(msg)), key)
        main = REPLAY_POLY % dict(msg=runner.rust_bytes(list(msg)), key=runner.rust_bytes(list(key)), want=runner.rust_bytes(list(out.raw)))
    elif v.get("e2") and (name.startswith("hchacha20") or name.startswith("hsalsa20")) and "custom" not in name:
        fn = "crypto_core_hchacha20" if name.startswith("hchacha20") else "crypto_core_hsalsa20"
        key = b"".join(int(x).to_bytes(4, "little") for x in model.get("key_words", [0] * 8))
        inp = b"".join(int(x).to_bytes(4, "little") for x in model.get("input_words", [0] * 4))
        out = ctypes.create_string_buffer(32)
        getattr(so, fn)(out, inp, key, None)
        main = REPLAY_HCORE % dict(key=runner.rust_bytes(list(key)), inp=runner.rust_bytes(list(inp)), want=runner.rust_bytes(list(out.raw)), fn=fn)
    elif v.get("e2") and name.startswith("blake2b_compress"):
        # through the public API only IV-derived chaining values are reachable: replay as a differential run of crypto_generichash
        main = differential_main()
    else:
        main = differential_main()
    outs = runner.native_run(scratch, "c07", main, extra_deps='libsodium-sys = "0.2"\n')
    v["replay_input"] = {"program": main[:3000]}
    return any(rc == 1 and "MISMATCH" in o for _, rc, o in outs), "; ".join("%s rc=%s %s" % (p, rc, o.strip()[-300:]) for p, rc, o in outs)


def differential_main():
    return r'''
extern crate libsodium_sys;
use dryoc::classic::crypto_generichash::crypto_generichash;
use dryoc::classic::crypto_onetimeauth::crypto_onetimeauth;
use dryoc::classic::crypto_auth::crypto_auth;
fn main() {
    let mut bad = false;
    let data: Vec<u8> = (0..600u32).map(|i| (i.wrapping_mul(2654435761) >> 13) as u8).collect();
    let key: Vec<u8> = (0..64u32).map(|i| (i * 7 + 3) as u8).collect();
    for len in (0..=300).chain([383usize, 384, 385, 511, 512, 513]) {
        for (ol, kl) in [(32usize, 0usize), (16, 0), (64, 0), (32, 32), (33, 16), (64, 64), (48, 17)] {
            let mut a = vec![0u8; ol]; let mut b = vec![0u8; ol];
            crypto_generichash(&mut a, &data[..len], if kl == 0 { None } else { Some(&key[..kl]) }).unwrap();
            unsafe { libsodium_sys::crypto_generichash(b.as_mut_ptr(), ol, data.as_ptr(), len as u64, if kl == 0 { std::ptr::null() } else { key.as_ptr() }, kl); }
            if a != b { println!("MISMATCH generichash len {} outlen {} keylen {}", len, ol, kl); bad = true; }
        }
        let mut k32 = [0u8; 32]; k32.copy_from_slice(&key[..32]);
        let mut m1 = [0u8; 16]; let mut m2 = [0u8; 16];
        crypto_onetimeauth(&mut m1, &data[..len], &k32);
        unsafe { libsodium_sys::crypto_onetimeauth(m2.as_mut_ptr(), data.as_ptr(), len as u64, k32.as_ptr()); }
        if m1 != m2 { println!("MISMATCH onetimeauth len {}", len); bad = true; }
        let mut h1 = [0u8; 32]; let mut h2 = [0u8; 32];
        crypto_auth(&mut h1, &data[..len], &k32);
        unsafe { libsodium_sys::crypto_auth(h2.as_mut_ptr(), data.as_ptr(), len as u64, k32.as_ptr()); }
        if h1 != h2 { println!("MISMATCH auth len {}", len); bad = true; }
        if bad { break; }
    }
    if bad { std::process::exit(1); }
    println!("agree");
}
'''
