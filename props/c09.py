"""C09 - Argon2 password hashing equals libsodium / RFC 9106 (in parts; whole-function equality at real memory sizes is out of reach).

Kernels (E2, MIR -> z3, all inputs): fill_block == RFC 9106 compression function G with BlaMka (with / without XOR) over
3 x 1 KiB of symbolic block contents; index_alpha == RFC 9106 3.4.1.2 for every 32-bit J1 over all position classes of
small segment lengths (inside the reference area, never the current block, no underflow).
Drivers (E1, Kani/CBMC): the variable-length hash H' chain structure for literal output lengths across the 64-byte and
32-byte-step boundaries (BLAKE2b compress transcript); crypto_pwhash parameter validation and cost conversion for
symbolic (opslimit, memlimit): accepted => inside libsodium's ranges and handed to Argon2 WITHOUT truncation;
PwHash::verify accepts exactly the recomputed hash.
Block schedule (E1, harness compiled INSIDE the argon2 module through the second include hook): argon2_hash for literal
(type, t, m) instances with one lane, with G (fill_block), H' (longhash) and index_alpha replaced by identity-tagging loggers:
H0 field layout over the BLAKE2b transcript, first-block seeds, memory geometry (m' = 4 * floor(m / 4)), and for every
position of every segment of every pass the (previous, reference) blocks handed to G, J1 taken from the previous block /
the address block G(0, G(0, Z)), XOR-onto-old in later passes, and the tag = H'(last block)."""
import json
import os
import subprocess

from vlib.engine import Harness, Suite, VERIF, log
from vlib import rs, runner
from props import c07

ASSUMPTIONS = [
    "BLAKE2b compress == RFC 7693 F (C07, E2)",
    "end-to-end byte equality for a parameter set follows by composition of the parts; it is not solver-checked as a whole",
]
OUTSIDE = ["the block schedule is decided for the listed literal (type, t, m) instances only (m <= 16 KiB, t <= 3); larger memories repeat the same per-position code with longer segments (segment length > 128 would add a second address block per segment - not exercised)",
           "lanes > 1 (the API fixes 1)", "memory sizes and output lengths beyond the listed literals", "secret key / associated data inputs of H0 (the API passes none)"]

E2_FUNCTIONS = ["argon2::{fill_block, blake2_round_nomsg (+ closure g), fblamka, copy_block, xor_block}", "argon2::index_alpha", "utils::rotr64"]

A2_STUB = [("crate::argon2::argon2_hash", "argon2_stub")]


def h_longhash(name, T, xlen=8):
    r = 0 if T <= 64 else ((T + 31) // 32 - 2)
    ncalls = 1 if T <= 64 else r + 1
    last = T - 32 * r
    return rs.hdr(("barrier", "fmt", "b2compress")) + r'''
fn %(name)s() {
    let x: [u8; %(xlen)d] = kani::any();
    wit!(W_0, &x);
    let mut out = [0u8; %(T)d];
    let r = crate::blake2b::longhash(&mut out, &x);
    kani::cover!(r.is_ok(), "hashed");
    assert!(r.is_ok(), "LONGHASH_OK");
    unsafe {
        assert!(B2S.b2_n == %(ncalls)d, "LONGHASH_CALLS: V1 plus one 64-byte-input hash per further 32 output bytes");
        let first_len: u8 = (if %(T)d <= 64 { %(T)d } else { 64 }) as u8;
        assert!(B2S.b2_hin[0] == b2_h0(first_len, 0, &[0u8; 16], &[0u8; 16]), "LONGHASH_V1_PARAMS: V1 = BLAKE2b-min(T,64), unkeyed");
        assert!(B2S.b2_t[0][0] == %(xlen)d + 4 && B2S.b2_f[0][0] == u64::MAX, "LONGHASH_V1_INPUT: one final block of 4 + |X| bytes");
        let tb = (%(T)d as u32).to_le_bytes();
        let mut i = 0;
        while i < 128 { let w = if i < 4 { tb[i] } else if i < 4 + %(xlen)d { x[i - 4] } else { 0 }; assert!(B2S.b2_blk[0][i] == w, "LONGHASH_V1_INPUT: LE32(T) || X"); i += 1; }
        if %(T)d <= 64 {
            let o = b2_out_bytes(&B2S.b2_hout[0]);
            i = 0; while i < %(T)d { assert!(out[i] == o[i], "LONGHASH_OUTPUT: output = V1 for T <= 64"); i += 1; }
        } else {
            let mut k = 1;
            while k < %(ncalls)d {
                let want_len: u8 = if k == %(ncalls)d - 1 { %(last)d } else { 64 };
                assert!(B2S.b2_hin[k] == b2_h0(want_len, 0, &[0u8; 16], &[0u8; 16]), "LONGHASH_CHAIN_PARAMS: V_i = BLAKE2b-64(V_{i-1}); the last one has T - 32 r bytes");
                assert!(B2S.b2_t[k][0] == 64 && B2S.b2_f[k][0] == u64::MAX, "LONGHASH_CHAIN_INPUT: each step hashes exactly the previous 64-byte value");
                let pv = b2_out_bytes(&B2S.b2_hout[k - 1]);
                i = 0; while i < 128 { let w = if i < 64 { pv[i] } else { 0 }; assert!(B2S.b2_blk[k][i] == w, "LONGHASH_CHAIN_INPUT: each step hashes exactly the previous 64-byte value"); i += 1; }
                k += 1;
            }
            k = 0;
            while k < %(ncalls)d - 1 {
                let v = b2_out_bytes(&B2S.b2_hout[k]);
                i = 0; while i < 32 { assert!(out[32 * k + i] == v[i], "LONGHASH_OUTPUT: first 32 bytes of V_1 .. V_r, then all of V_{r+1}"); i += 1; }
                k += 1;
            }
            let v = b2_out_bytes(&B2S.b2_hout[%(ncalls)d - 1]);
            i = 0; while i < %(last)d { assert!(out[32 * (%(ncalls)d - 1) + i] == v[i], "LONGHASH_OUTPUT: first 32 bytes of V_1 .. V_r, then all of V_{r+1}"); i += 1; }
        }
    }
}
''' % dict(name=name, T=T, xlen=xlen, ncalls=ncalls, last=last)


H_PARAMS = r'''
fn c09_pwhash_params_%(alg)s() {
    use crate::classic::crypto_pwhash::*;
    let ops: u64 = kani::any(); let mem: usize = kani::any();
    wit!(W_0, &ops.to_le_bytes()); wit!(W_1, &(mem as u64).to_le_bytes());
    let pw: [u8; 3] = kani::any(); let salt: [u8; 16] = kani::any();
    let mut out = [0u8; 32];
    let r = crypto_pwhash(&mut out, &pw, &salt, ops, mem, PasswordHashAlgorithm::%(variant)s);
    kani::cover!(r.is_ok(), "accepted parameter set reachable");
    kani::cover!(r.is_err(), "rejected parameter set reachable");
    let in_range = ops >= 1 && ops <= 4294967295 && mem >= 8192 && (mem as u64) <= 4398046510080;
    assert!(r.is_ok() == in_range, "PWHASH_RANGES: exactly libsodium's (opslimit, memlimit) ranges are accepted");
    if r.is_ok() {
        unsafe {
            assert!(A2S.n == 1 && A2S.t as u64 == ops, "PWHASH_T_COST: the pass count handed to Argon2 is opslimit itself (no truncation)");
            assert!(A2S.m as u64 == (mem as u64) / 1024, "PWHASH_M_COST: the memory handed to Argon2 is memlimit / 1024 KiB (no truncation)");
            assert!(A2S.p == 1 && A2S.ty == %(ty)d && A2S.outlen == 32 && A2S.saltlen == 16 && A2S.pwlen == 3, "PWHASH_ARGS: one lane, the requested variant, output / salt / password forwarded whole");
        }
    }
}
'''

H_VERIFY = r'''
fn c09_pwhash_verify() {
    use crate::pwhash::*;
    let pw: [u8; 3] = kani::any(); let salt: [u8; 16] = kani::any(); let stored: [u8; 32] = kani::any();
    let h: VecPwHash = PwHash::from_parts(stored.to_vec(), salt.to_vec(), Config::interactive());
    let r = h.verify(&pw.to_vec());
    kani::cover!(r.is_ok(), "accept reachable"); kani::cover!(r.is_err(), "reject reachable");
    unsafe {
        let mut same = A2S.outlen == 32; let mut i = 0; while i < 32 { if stored[i] != A2S.out[i] { same = false; } i += 1; }
        assert!(r.is_ok() == same, "PWHASH_VERIFY: verify accepts exactly when the recomputed hash equals the stored one over its whole length");
        assert!(A2S.n == 1 && A2S.saltlen == 16 && A2S.pwlen == 3 && A2S.ty == 2, "PWHASH_VERIFY_ARGS: recomputation uses the stored salt, config and the presented password");
    }
}
'''



WIPE_1K = r"_RNvX[0-9A-Za-z_]*7zeroizeINtNtNtC[0-9A-Za-z_]*4core5slice4iter7IterMuthE[0-9A-Za-z_]*7Zeroize7zeroize[0-9A-Za-z_]*"
SCHED_STUBS = [("crate::argon2::fill_block", "crate::argon2::verif_harness_argon2::fill_block_stub"),
               ("crate::blake2b::blake2b_soft::longhash", "crate::argon2::verif_harness_argon2::longhash_stub")]


IA_STUB = [("crate::argon2::index_alpha", "crate::argon2::verif_harness_argon2::index_alpha_stub")]


def h_schedule(name, ty, t, m, T=32, real_alpha=False):
    """argon2_hash block schedule for one literal (type, t, m) with lanes = 1: H0 field layout, first-block derivation,
    and for every position the (previous, reference) blocks handed to G, with G and H' replaced by identity-tagging loggers."""
    seg = max(m, 8) // 4
    lane = 4 * seg
    variant = {1: "Argon2i", 2: "Argon2id"}[ty]
    if real_alpha:
        refsel = """let size: u64 = if pass == 0 { cur - 1 } else { LANE - SEG + index - 1 };
                    let x = (j1 * j1) >> 32;
                    let y = (size * x) >> 32;
                    let zz = size - 1 - y;
                    let startp: u64 = if pass != 0 && slice != 3 { (slice + 1) * SEG } else { 0 };
                    let refi = (startp + zz) %% LANE;"""
    else:
        refsel = """assert!(c - naddr < va::IAL.n, "A2_SCHEDULE_COUNT: one reference index per position");
                    let q = c - naddr;
                    assert!(va::IAL.pass[q] as u64 == pass && va::IAL.lane[q] == 0 && va::IAL.slice[q] as u64 == slice && va::IAL.index[q] as u64 == index, "A2_ALPHA_POSITION: the reference index is computed for the position being filled");
                    assert!(va::IAL.j1[q] as u64 == j1 && va::IAL.same[q], "A2_ALPHA_J1: J1 is the low 32 bits of the previous block's first word (data-dependent) or of the address word (data-independent); one lane");
                    assert!(va::IAL.seg[q] as u64 == SEG && va::IAL.lanelen[q] as u64 == LANE, "A2_GEOMETRY: segment length = floor(m / 4p), lane length = 4 x segment length");
                    let refi = va::IAL.ret[q] as u64;"""
    return rs.hdr(("barrier", "fmt", "b2compress"), extra=SCHED_STUBS + ([] if real_alpha else IA_STUB)) + (r"""
fn %(name)s() {
    use crate::argon2::verif_harness_argon2 as va;
    const T_COST: u64 = %(t)d; const M_COST: u32 = %(m)d; const SEG: u64 = %(seg)d; const LANE: u64 = %(lane)d; const TY: u64 = %(ty)d; const OUTLEN: usize = %(T)d;
    let pw: [u8; 3] = kani::any(); let salt: [u8; 16] = kani::any();
    wit!(W_0, &pw); wit!(W_1, &salt);
    let mut out = [0u8; OUTLEN];
    let r = crate::argon2::argon2_hash(T_COST as u32, M_COST, 1, &pw, &salt, None, None, &mut out, crate::argon2::Argon2Type::%(variant)s);
    kani::cover!(r.is_ok(), "hash computed");
    assert!(r.is_ok(), "A2_OK: a valid parameter set is hashed");
    unsafe {
        // ---- H0 (RFC 9106 3.2): one BLAKE2b-64 over p | T | m | t | v | y | |P| | P | |S| | S | |K| | |X|
        assert!(B2S.b2_n == 1 && B2S.b2_hin[0] == b2_h0(64, 0, &[0u8; 16], &[0u8; 16]), "A2_H0_PARAMS: H0 is an unkeyed BLAKE2b-64");
        assert!(B2S.b2_t[0][0] == 59 && B2S.b2_t[0][1] == 0 && B2S.b2_f[0][0] == u64::MAX, "A2_H0_LENGTH: H0 hashes exactly 59 bytes for |P| = 3, |S| = 16, no K, no X");
        let mut want = [0u8; 128];
        want[0..4].copy_from_slice(&1u32.to_le_bytes());
        want[4..8].copy_from_slice(&(OUTLEN as u32).to_le_bytes());
        want[8..12].copy_from_slice(&M_COST.to_le_bytes());
        want[12..16].copy_from_slice(&(T_COST as u32).to_le_bytes());
        want[16..20].copy_from_slice(&0x13u32.to_le_bytes());
        want[20..24].copy_from_slice(&(TY as u32).to_le_bytes());
        want[24..28].copy_from_slice(&3u32.to_le_bytes());
        want[28..31].copy_from_slice(&pw);
        want[31..35].copy_from_slice(&16u32.to_le_bytes());
        want[35..51].copy_from_slice(&salt);
        let mut i = 0;
        while i < 128 { assert!(B2S.b2_blk[0][i] == want[i], "A2_H0_INPUT: LE32(p) | LE32(T) | LE32(m) | LE32(t) | LE32(0x13) | LE32(y) | LE32(|P|) | P | LE32(|S|) | S | LE32(0) | LE32(0)"); i += 1; }
        let h0 = b2_out_bytes(&B2S.b2_hout[0]);
        // ---- first blocks (3.2 steps 3-4): B[0][0] = H'^1024(H0 | LE32(0) | LE32(0)), B[0][1] = H'^1024(H0 | LE32(1) | LE32(0))
        assert!(va::A2L.lh_n == 3, "A2_HPRIME_CALLS: two first blocks and the tag");
        let mut k = 0;
        while k < 2 {
            assert!(va::A2L.lh_outlen[k] == 1024 && va::A2L.lh_inlen[k] == 72, "A2_FIRST_BLOCKS: 1024-byte H' over the 72-byte seed");
            i = 0;
            while i < 64 { assert!(va::A2L.lh_in[k][i] == h0[i], "A2_FIRST_BLOCKS: seed starts with H0"); i += 1; }
            assert!(va::A2L.lh_in[k][64] == k as u8 && va::A2L.lh_in[k][65] == 0 && va::A2L.lh_in[k][66] == 0 && va::A2L.lh_in[k][67] == 0, "A2_FIRST_BLOCKS: LE32(block index)");
            assert!(va::A2L.lh_in[k][68] == 0 && va::A2L.lh_in[k][69] == 0 && va::A2L.lh_in[k][70] == 0 && va::A2L.lh_in[k][71] == 0, "A2_FIRST_BLOCKS: LE32(lane)");
            k += 1;
        }
        // ---- the schedule (3.2 steps 5-6, 3.4): replay RFC 9106 over block identities
        let mut ids = [0u64; LANE as usize];
        let mut js = [0u64; LANE as usize];
        ids[0] = 500; ids[1] = 501; js[0] = va::A2L.lh_w0[0]; js[1] = va::A2L.lh_w0[1];
        let mut c: usize = 0;
        let mut naddr: usize = 0;
        let mut pass: u64 = 0;
        while pass < T_COST {
            let mut slice: u64 = 0;
            while slice < 4 {
                let di = TY == 1 || (pass == 0 && slice < 2);
                let start: u64 = if pass == 0 && slice == 0 { 2 } else { 0 };
                let mut pr = [0u64; SEG as usize];
                if di && c + 1 < va::A2L.n && va::A2L.previd[c] == 0 && va::A2L.prev_zero[c] {
                    // address block (3.4.1.1): G(ZERO, G(ZERO, Z | counter)), Z = (r, l, sl, m', t, y)
                    let z = [pass, 0, slice, LANE, T_COST, TY, 1, 0];
                    assert!(va::A2L.inw[c] == z && va::A2L.refid[c] == 0, "A2_ADDRESS_INPUT: Z = (pass, lane, slice, total blocks m', passes, type), counter 1");
                    assert!(va::A2L.old_zero[c], "A2_ADDRESS_INPUT: G output not mixed with stale data");
                    assert!(va::A2L.prev_zero[c + 1] && va::A2L.previd[c + 1] == 0 && va::A2L.refid[c + 1] == va::A2L.newid[c] && va::A2L.old_zero[c + 1], "A2_ADDRESS_DOUBLE_G: the address block is G(ZERO, G(ZERO, input))");
                    i = 0;
                    while i < SEG as usize { pr[i] = va::A2L.outw[c + 1][i]; i += 1; }
                    c += 2; naddr += 2;
                } else {
                    assert!(!di || start >= SEG, "A2_ADDRESS_MISSING: a data-independent segment must derive its addresses first");
                }
                let mut index = start;
                while index < SEG {
                    let cur = slice * SEG + index;
                    let prev = (cur + LANE - 1) %% LANE;
                    let j = if di { pr[index as usize] } else { js[prev as usize] };
                    let j1 = j & 0xffff_ffff;
                    REFSEL
                    assert!(c < va::A2L.n, "A2_SCHEDULE_COUNT: every position of every segment is filled");
                    assert!(va::A2L.previd[c] == ids[prev as usize], "A2_SCHEDULE_PREV: G's first input is the previous block of the lane (wrapping to the last block)");
                    assert!(va::A2L.refid[c] == ids[refi as usize], "A2_SCHEDULE_REF: G's second input is the block selected by J1 per 3.4.1.2 / 3.4.2");
                    assert!(va::A2L.xor[c] == (pass != 0), "A2_SCHEDULE_XOR: passes after the first XOR onto the old block (v1.3)");
                    assert!(pass == 0 || va::A2L.oldid[c] == ids[cur as usize], "A2_SCHEDULE_XOR: the old content is that of the overwritten position");
                    ids[cur as usize] = va::A2L.newid[c];
                    js[cur as usize] = va::A2L.outw[c][0];
                    c += 1;
                    index += 1;
                }
                slice += 1;
            }
            pass += 1;
        }
        assert!(c == va::A2L.n, "A2_SCHEDULE_COUNT: no compression beyond the schedule");
        // ---- tag (3.2 step 7-8, one lane): H'^T(B[0][q-1])
        assert!(va::A2L.lh_outlen[2] == OUTLEN && va::A2L.lh_inlen[2] == 1024, "A2_TAG: H'^T over the 1024 bytes of the final block");
        assert!(va::A2L.lh_in_id[2] == ids[(LANE - 1) as usize] && va::A2L.lh_in_w0[2] == js[(LANE - 1) as usize], "A2_TAG: the final block is the last block of the lane after the last pass");
        i = 0;
        while i < OUTLEN && i < 64 { assert!(out[i] == va::A2L.lh_out[i], "A2_TAG: the output is H' of the final block"); i += 1; }
    }
}
""" % dict(name=name, ty=ty, t=t, m=m, seg=seg, lane=lane, variant=variant, T=T)).replace("REFSEL", refsel.replace("%%", "%"))


def sched_suite(tier):
    # quick: Argon2id with one and two passes (m = 11 is not a multiple of 4); Argon2i (every segment data-independent, ~10 min) is thorough
    inst = [(2, 1, 8), (2, 2, 11)] if tier == "quick" else [(2, 1, 8), (2, 2, 11), (1, 1, 9), (2, 3, 8), (2, 1, 12), (2, 2, 15), (1, 2, 13), (2, 1, 16)]
    src = rs.prelude()
    hs = []
    if tier != "quick":
        inst = inst + [(2, 1, 8, True)]
    for it in inst:
        ty, t, m = it[:3]
        real = len(it) > 3
        n = "c09_schedule_%s_t%d_m%d%s" % ({1: "i", 2: "id"}[ty], t, m, "_realalpha" if real else "")
        src += h_schedule(n, ty, t, m, real_alpha=real)
        hs.append(Harness(n, unwind=1030, timeout=3000, mem_gb=(16 if m < 12 else 30), site="argon2::argon2_hash",
                          desc="block schedule of argon2_hash for type %s, t = %d, m = %d KiB, 1 lane, |P| = 3, |S| = 16 symbolic: H0 layout, first blocks, per-position (prev, ref) selection with symbolic J, "
                               "address generation, XOR passes, tag == RFC 9106 (G and H' replaced by identity-tagging loggers)" % ({1: "i", 2: "id"}[ty], t, m),
                          bounds={"type": ty, "t_cost": t, "m_cost_kib": m, "lanes": 1, "pwlen": 3, "saltlen": 16, "outlen": 32}))
        # <slice::IterMut<u8> as Zeroize>::zeroize (wiping of the 1 KiB temporaries: 1024 volatile writes, ~15 min of symbolic
        # execution) gets an empty body: wiping is not part of C09
        hs[-1].drop_bodies = [WIPE_1K]
    s = Suite("C09", src, hs, stubs=rs.stub_names(("barrier", "fmt", "b2compress"), extra=SCHED_STUBS + IA_STUB),
              functions=["argon2::{argon2_hash, Argon2Context::new, Argon2Instance::new, argon2_initial_hash, argon2_fill_first_blocks, argon2_fill_memory_blocks, fill_segment, index_alpha, generate_addresses, argon2_finalize, load_block, store_block, copy_block}"],
              assumptions=ASSUMPTIONS + ["fill_block == RFC 9106 G and longhash == H' (the other C09 obligations)", "wiping of byte temporaries (zeroize over slice::IterMut<u8>) has no effect on the result: its body is dropped"],
              argon2_source=open(os.path.join(VERIF, "harness", "argon2_sched.rs")).read())
    s.tag = "sched"
    return s


def suites(tier, seed):
    src = rs.prelude() + rs.load("rng.rs")
    hs = []
    Ts = [16, 64, 65] if tier == "quick" else [5, 16, 32, 63, 64, 65, 95, 96, 97, 127, 128, 129, 160, 200, 256]
    for T in Ts:
        n = "c09_longhash_T%d" % T
        src += h_longhash(n, T)
        hs.append(Harness(n, unwind=max(132, T + 10), timeout=2400, site="blake2b::longhash",
                          desc="variable-length hash H' with output length %d over a symbolic 8-byte input: BLAKE2b compress transcript == RFC 9106 3.3" % T, bounds={"T": T, "input_len": 8}))
    for alg, variant, ty in (("argon2id", "Argon2id13", 2), ("argon2i", "Argon2i13", 1)):
        src += rs.hdr(("barrier", "fmt"), extra=A2_STUB) + H_PARAMS % dict(alg=alg, variant=variant, ty=ty)
        hs.append(Harness("c09_pwhash_params_" + alg, unwind=70, timeout=900, site="crypto_pwhash",
                          desc="symbolic (opslimit, memlimit): accepted <=> libsodium's ranges; costs reach Argon2 without truncation (Argon2 stubbed)", bounds={"opslimit": "symbolic u64", "memlimit": "symbolic usize"}))
    src += rs.hdr(("barrier", "fmt"), extra=A2_STUB) + H_VERIFY
    hs.append(Harness("c09_pwhash_verify", unwind=70, timeout=900, site="PwHash::verify", desc="Ok <=> recomputed hash == stored hash (Argon2 stubbed with a symbolic output)", bounds={}))
    return [Suite("C09", src, hs, stubs=rs.stub_names(("barrier", "fmt", "b2compress"), extra=A2_STUB),
                  functions=["blake2b::blake2b_soft::longhash", "classic::crypto_pwhash::{crypto_pwhash,convert_costs}", "pwhash::PwHash::{verify,hash_with_salt}"],
                  assumptions=ASSUMPTIONS), sched_suite(tier)]


def e2(tier, seed, scratch, logdir):
    os.makedirs(logdir, exist_ok=True)
    mir = c07.mir_dump(scratch, logdir)
    outp = os.path.join(logdir, "e2.json")
    with open(os.path.join(logdir, "e2.log"), "w") as f:
        subprocess.run(["python3-vt", os.path.join(VERIF, "mir2smt", "kernels.py"), mir, outp, "argon2"], stdout=f, stderr=subprocess.STDOUT, timeout=3600, cwd=os.path.join(VERIF, "mir2smt"))
    items = json.load(open(outp))
    for it in items:
        it["site"] = "E2:" + it["name"].split(".")[0]
        it["role"] = "KERNEL_SPEC:" + it["name"]
        log("  e2 %-46s %-8s %6.1fs %s" % (it["name"], it["status"], it["secs"], (it.get("error") or "")[:80]))
    return items


def replay(v, scratch):
    """native differential run of crypto_pwhash against libsodium over small parameter sets (incl. memory sizes that are not a
    multiple of 4 KiB, output lengths around 64 / 96 / 128) and the parameter-range boundaries"""
    main = r'''
extern crate libsodium_sys;
use dryoc::classic::crypto_pwhash::*;
fn main() {
    let mut bad = false;
    let pw = b"correct horse"; let salt = [0x5au8; 16];
    for (alg, soalg) in [(PasswordHashAlgorithm::Argon2id13, 2i32), (PasswordHashAlgorithm::Argon2i13, 1i32)] {
        for m_kib in [8usize, 9, 10, 11, 12, 13, 16, 31, 67] {
            for t in [1u64, 2, 3, 4] {
                if soalg == 1 && t < 3 { continue; }
                for outlen in [16usize, 32, 64, 65, 96, 97, 128, 129] {
                    let mut a = vec![0u8; outlen]; let mut b = vec![0u8; outlen];
                    let r = crypto_pwhash(&mut a, pw, &salt, t, m_kib * 1024, alg.clone());
                    let rc = unsafe { libsodium_sys::crypto_pwhash(b.as_mut_ptr(), outlen as u64, pw.as_ptr() as *const _, pw.len() as u64, salt.as_ptr(), t, m_kib * 1024, soalg) };
                    if r.is_ok() != (rc == 0) || (rc == 0 && a != b) { println!("MISMATCH crypto_pwhash alg {} m {} KiB t {} outlen {}", soalg, m_kib, t, outlen); bad = true; }
                }
            }
        }
    }
    // range boundaries: libsodium rejects these, dryoc must too (and must not silently truncate)
    let mut o = [0u8; 32];
    for (t, m) in [(0u64, 8192usize), ((1u64 << 32) + 1, 8192), (1u64 << 32, 8192), (1, 8191), (1, 0)] {
        if crypto_pwhash(&mut o, pw, &salt, t, m, PasswordHashAlgorithm::Argon2id13).is_ok() { println!("MISMATCH out-of-range (opslimit {}, memlimit {}) accepted", t, m); bad = true; }
    }
    if bad { std::process::exit(1); }
    println!("agree");
}
'''
    outs = runner.native_run(scratch, "c09", main, extra_deps='libsodium-sys = "0.2"\n', profiles=("release",), timeout=1800)
    v["replay_input"] = {"program": main}
    return any(rc == 1 and "MISMATCH" in o for _, rc, o in outs), "; ".join("%s rc=%s %s" % (p, rc, o.strip()[-300:]) for p, rc, o in outs)
