"""C17 - a failed open releases nothing derived from the rejected ciphertext.

For every classic open that writes into a caller buffer: key, nonce / stream state,
ciphertext, presented tag, the buffer's previous contents and the ideal MAC's output are
all symbolic; the MAC output is assumed different from the presented tag; the solver must
show Err and that every output byte is what it was before the call or zero, that the
stream tag output is untouched and the stream state is bit-identical."""
from vlib.engine import Harness, Suite
from vlib import rs, runner
from props import aead

ASSUMPTIONS = [
    "Poly1305 is replaced by an ideal MAC whose 16-byte output is an arbitrary symbolic value different from the presented tag "
    "(Poly1305 itself is the subject of C07)",
    "X25519 is replaced by a contract stub returning an arbitrary shared secret (curve arithmetic is trusted base, see C05)",
    "XSalsa20/ChaCha20 (RustCrypto) run for real with symbolic keys; their internals are trusted base",
]
OUTSIDE = ["message lengths other than the listed literals (quick: <= 17 bytes; thorough: <= 65 bytes plus one 1100-byte instance of secretbox_open_detached, ~15 min)", "object API (returns only Result; nothing else is caller-visible)"]


def harness_text(site, name):
    n = site["outlen"]
    extra = ""
    if site.get("stream"):
        extra = r'''
    assert!(tagout == pretag[0], "TAG_UNTOUCHED_ON_ERR: the stream tag output is not updated by a rejected pull");
    {
        let (k2, n2) = st.verif_parts();
        assert!(*k2 == sk && *n2 == snonce, "STATE_UNTOUCHED_ON_ERR: a rejected pull leaves the stream state exactly as it was");
    }'''
    return rs.hdr(("barrier", "fmt") + tuple(site["stubs"])) + r'''
fn %(name)s() {
%(decls)s
    let macout: [u8; 16] = kani::any();
    unsafe { AES.mac_out[0] = macout; }
    {
        let presented: &[u8] = &%(tagexpr)s;
        let mut same = true;
        let mut i = 0;
        while i < 16 { if presented[i] != macout[i] { same = false; } i += 1; }
        kani::assume(!same);
    }
    %(init)s
    let r = %(call)s;
    kani::cover!(true, "open returned");
    assert!(r.is_err(), "AUTH_REJECT: a presented tag different from the MAC is rejected");%(extra)s
    let mut i = 0;
    while i < %(n)d {
        assert!(%(out)s[i] == %(orig)s[i] || %(out)s[i] == 0, "NO_RELEASE_ON_ERR: after a failed open every caller-visible output byte is as it was or zero");
        i += 1;
    }
}
''' % dict(name=name, decls=aead.decls_symbolic(site), tagexpr=site["tagexpr"], init=site["init"], call=site["call"],
           n=n, out=site["out"], orig=site["orig"], extra=extra)


def large_suite(tier):
    """buffers beyond any internal chunk size a rewrite might introduce (1 KiB, 4 KiB): the in-place secretbox open all
    box / secretbox entry points funnel into, plus the copying form; own suite because the MAC transcript log is enlarged"""
    src = rs.prelude() + rs.load("aead.rs").replace("pub const MAC_CAP: usize = 384;", "pub const MAC_CAP: usize = 4400;") + aead.USES
    hs = []
    for n in [1100]:
        for site in aead.sites(n):
            if site["name"] != "secretbox_open_detached":     # the in-place combined form ran out of memory (20 GB) at this size
                continue
            name = "c17_%s_n%d" % (site["name"], n)
            src += harness_text(site, name)
            hs.append(Harness(name, unwind=n + 40, timeout=3000, mem_gb=20, site=site["name"],
                              desc="%s, message length %d (beyond 1 KiB / 4 KiB chunk sizes): symbolic key/nonce/ciphertext/tag/previous contents, ideal MAC output != presented tag" % (site["name"], n),
                              bounds={"message_len": n}))
    s = Suite("C17", src, hs, stubs=rs.stub_names(("barrier", "fmt") + rs.MAC),
              functions=["classic::crypto_secretbox_impl::crypto_secretbox_open_detached_inplace", "classic::crypto_secretbox::{open_detached,open_easy_inplace}"], assumptions=ASSUMPTIONS)
    s.tag = "e1-large"
    return s


def suites(tier, seed):
    src = rs.prelude() + rs.load("aead.rs") + aead.USES
    hs = []
    lens = [1, 17] if tier == "quick" else [1, 2, 15, 16, 17, 33, 64, 65]
    stubs = set()
    for n in lens:
        for site in aead.sites(n, adlen=(5 if n == 17 else 0)):
            name = "c17_%s_n%d" % (site["name"], n)
            src += harness_text(site, name)
            stubs |= set(rs.stub_names(("barrier", "fmt") + tuple(site["stubs"])))
            hs.append(Harness(name, unwind=max(70, n + 60), timeout=1800, site=site["name"],
                              desc="%s, message length %d: symbolic key/nonce/ciphertext/tag/previous buffer contents, ideal MAC output != presented tag" % (site["name"], n),
                              bounds={"message_len": n, "adlen": site.get("adlen", 0)}))
    # vacuity twin: the same check on the encrypt side must see the buffer change
    src += rs.hdr(("barrier", "fmt") + rs.MAC) + r'''
fn c17_twin_encrypt_changes_buffer() {
    let key: [u8; 32] = kani::any(); let nonce: [u8; 24] = kani::any(); let m: [u8; 4] = kani::any();
    let mut c = [0u8; 4]; let mut tag = [0u8; 16];
    crypto_secretbox_detached(&mut c, &mut tag, &m, &nonce, &key);
    assert!(c[0] == 0 && c[1] == 0 && c[2] == 0 && c[3] == 0, "TWIN: must fail (ciphertext is written)");
}
'''
    hs.append(Harness("c17_twin_encrypt_changes_buffer", unwind=70, timeout=900, expect="fail", site="twin", desc="vacuity twin"))
    return ([large_suite(tier)] if tier != "quick" else []) + [Suite("C17", src, hs, stubs=sorted(stubs),
                  functions=["classic::crypto_secretbox_impl::crypto_secretbox_open_detached_inplace", "classic::crypto_secretbox::{open_detached,open_easy,open_easy_inplace}",
                             "classic::crypto_box::{open_detached,open_detached_inplace,open_easy,open_easy_inplace,open_*_afternm*,seal_open}",
                             "classic::crypto_secretstream_xchacha20poly1305::crypto_secretstream_xchacha20poly1305_pull"],
                  assumptions=ASSUMPTIONS)]


def replay(v, scratch):
    h = v["harness"]
    n = int(h.rsplit("_n", 1)[1])
    sname = h[len("c17_"):].rsplit("_n", 1)[0]
    site = next(s for s in aead.sites(n, adlen=(5 if n == 17 else 0)) if s["name"] == sname)
    extra = ""
    if site.get("stream"):
        extra = r'''
    if tagout != pretag[0] { println!("MISMATCH TAG_UNTOUCHED_ON_ERR tag {} -> {}", pretag[0], tagout); bad = true; }'''
    main = aead.NATIVE_USES + r'''
fn main() {
%(decls)s
    %(init)s
    let r = %(call)s;
    let mut bad = false;
    if r.is_ok() { println!("NOTE open succeeded natively (presented tag happened to be valid)"); std::process::exit(3); }%(extra)s
    for i in 0..%(n)d {
        if !(%(out)s[i] == %(orig)s[i] || %(out)s[i] == 0) { println!("MISMATCH NO_RELEASE_ON_ERR byte {} was {:#x} now {:#x}", i, %(orig)s[i], %(out)s[i]); bad = true; break; }
    }
    if bad { std::process::exit(1); }
    println!("agree");
}
''' % dict(decls=aead.decls_native(site, v.get("witness", {})), init=site["init"], call=site["call"], n=site["outlen"],
           out=site["out"], orig=site["orig"], extra=extra)
    if site.get("stream"):
        main = main.replace("State::verif_from_parts(sk, snonce)", "stream_state(sk, snonce)")
        main += STREAM_STATE_NATIVE
    outs = runner.native_run(scratch, "c17", main)
    v["replay_input"] = {"site": sname, "n": n, "program": main}
    role = v["role"]
    repro = any(rc == 1 and ("MISMATCH " + role) in o for _, rc, o in outs) or ("@" in role and any(rc == 101 for _, rc, _ in outs))
    return repro, "; ".join("%s rc=%s %s" % (p, rc, o.strip()[-300:]) for p, rc, o in outs)


# natively (guard off) the stream state cannot be constructed from parts; it is reached through the public API instead:
# init_pull with a header, which fixes k = HChaCha20(key, header[..16]); the witness's (k, nonce) is replaced by that state.
STREAM_STATE_NATIVE = r'''
fn stream_state(sk: [u8; 32], snonce: [u8; 12]) -> State {
    let mut st = State::new();
    let mut header = [0u8; 24];
    header[16..24].copy_from_slice(&snonce[4..12]);
    crypto_secretstream_xchacha20poly1305_init_pull(&mut st, &header, &sk);
    st
}
'''
