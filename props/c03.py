"""C03 - secret streams authenticate order, tags and rekeying in lockstep with libsodium.

One inductive step from an ARBITRARY state instead of histories: through the
cfg(dryoc_verif) hook the pre-state (key, 12-byte nonce) is 44 symbolic bytes, so the
message counter takes every 32-bit value incl. 0xfffffffe / 0xffffffff / 0.
A) keystream-independent facts, fully symbolic state (push, pull): MAC transcript structure
   (AD, padding incl. libsodium's padding quirk, tag block, ciphertext, lengths), post-state
   function (counter + 1, inonce ^= mac[0..8]), rekey taken IFF (tag & REKEY) or the counter
   wrapped to zero, appended / compared tag, returned length; Poly1305 is an ideal MAC and
   rekey() is observed through a logging stub.
B) keystream-dependent facts at literal (key, nonce) instances, counters
   {1, 0x7fffffff, 0xfffffffe, 0xffffffff}: MAC key, tag block, ciphertext bytes, pull's
   plaintext and tag, and the real rekey() output equal libsodium's algorithm transcribed
   in the harness with its own ChaCha20 (both sides evaluated by constant propagation,
   message bytes and tag stay symbolic).
C) init_push / init_pull: k = HChaCha20(key, header[0..16]) (arguments checked; HChaCha20
   itself is C07), inonce = header[16..24], counter = 1.
D) object API DryocStream::{push,pull,rekey} forwards to the classic calls unchanged."""
import random

from vlib.engine import Harness, Suite
from vlib import rs, runner

ASSUMPTIONS = [
    "Poly1305 idealised (C07 proves the real one); 'out-of-position ciphertexts are rejected' is the ideal-MAC consequence of: the one-time MAC key is "
    "keystream block 0 under the WHOLE current (k, nonce), and every accepted step changes (k, nonce)",
    "RustCrypto chacha20 crate is trusted base; compared against the harness's own RFC 8439 transcription only at the literal (key, nonce) instances",
]
OUTSIDE = ["keystream-value equalities at keys other than the literal instances", "message / AD lengths other than the listed literals",
           "libsodium's in-memory state struct layout (only the (k, nonce) values are compared)"]

BODY = r'''
use crate::classic::crypto_secretstream_xchacha20poly1305::*;

pub struct RkState { pub magic: u64, pub n: usize, pub k: [u8; 32], pub nonce: [u8; 12] }
pub static mut RKS: RkState = RkState { magic: 0x4B4B000853EDC0DE, n: 0, k: [0; 32], nonce: [0; 12] };
fn rekey_log_stub(state: &mut State) {
    let (k, n) = state.verif_parts();
    unsafe { RKS.k = *k; RKS.nonce = *n; RKS.n += 1; }
}

// RFC 8439 ChaCha20 block function (the harness's own transcription)
fn qr(s: &mut [u32; 16], a: usize, b: usize, c: usize, d: usize) {
    s[a] = s[a].wrapping_add(s[b]); s[d] ^= s[a]; s[d] = s[d].rotate_left(16);
    s[c] = s[c].wrapping_add(s[d]); s[b] ^= s[c]; s[b] = s[b].rotate_left(12);
    s[a] = s[a].wrapping_add(s[b]); s[d] ^= s[a]; s[d] = s[d].rotate_left(8);
    s[c] = s[c].wrapping_add(s[d]); s[b] ^= s[c]; s[b] = s[b].rotate_left(7);
}
fn chacha_block(key: &[u8; 32], counter: u32, nonce: &[u8; 12]) -> [u8; 64] {
    let mut st = [0u32; 16];
    st[0] = 0x61707865; st[1] = 0x3320646e; st[2] = 0x79622d32; st[3] = 0x6b206574;
    let mut i = 0;
    while i < 8 { st[4 + i] = u32::from_le_bytes([key[4 * i], key[4 * i + 1], key[4 * i + 2], key[4 * i + 3]]); i += 1; }
    st[12] = counter;
    i = 0;
    while i < 3 { st[13 + i] = u32::from_le_bytes([nonce[4 * i], nonce[4 * i + 1], nonce[4 * i + 2], nonce[4 * i + 3]]); i += 1; }
    let mut w = st;
    let mut r = 0;
    while r < 10 {
        qr(&mut w, 0, 4, 8, 12); qr(&mut w, 1, 5, 9, 13); qr(&mut w, 2, 6, 10, 14); qr(&mut w, 3, 7, 11, 15);
        qr(&mut w, 0, 5, 10, 15); qr(&mut w, 1, 6, 11, 12); qr(&mut w, 2, 7, 8, 13); qr(&mut w, 3, 4, 9, 14);
        r += 1;
    }
    let mut out = [0u8; 64];
    i = 0;
    while i < 16 {
        let v = w[i].wrapping_add(st[i]).to_le_bytes();
        out[4 * i] = v[0]; out[4 * i + 1] = v[1]; out[4 * i + 2] = v[2]; out[4 * i + 3] = v[3];
        i += 1;
    }
    out
}

/// the MAC transcript libsodium prescribes: ad || pad16 || B(64) || C(mlen) || 0^((16 - 64 + mlen) & 15) || le64(adlen) || le64(64 + mlen)
/// (structure only: B[1..64] is keystream and is checked in the literal-key instances)
fn check_mac_transcript(ad: &[u8], c0: u8, body: &[u8]) {
    unsafe {
        let s = &AES.mac_stream[0];
        let mlen = body.len();
        let adpad = (16 - (ad.len() % 16)) % 16;
        let mpad = ((0x10i64 - 64 + mlen as i64) & 0xf) as usize;
        assert!(AES.mac_len[0] == ad.len() + adpad + 64 + mlen + mpad + 16, "MAC_INPUT_LENGTH: MAC input = AD, pad, 64-byte tag block, ciphertext, pad (libsodium's formula), two lengths");
        let mut p = 0; let mut i = 0;
        while i < ad.len() { assert!(s[p] == ad[i], "MAC_INPUT_AD: every associated-data byte is authenticated, in order"); p += 1; i += 1; }
        i = 0; while i < adpad { assert!(s[p] == 0, "MAC_INPUT_PAD: zero padding"); p += 1; i += 1; }
        assert!(s[p] == c0, "MAC_INPUT_TAGBLOCK: the block's first byte is the (encrypted) tag byte on the wire");
        p += 64;
        i = 0; while i < mlen { assert!(s[p] == body[i], "MAC_INPUT_CIPHERTEXT: every ciphertext byte is authenticated, in order"); p += 1; i += 1; }
        i = 0; while i < mpad { assert!(s[p] == 0, "MAC_INPUT_PAD: zero padding"); p += 1; i += 1; }
        let l1 = (ad.len() as u64).to_le_bytes(); let l2 = ((64 + mlen) as u64).to_le_bytes();
        i = 0; while i < 8 { assert!(s[p] == l1[i], "MAC_INPUT_LENGTHS: le64(adlen)"); p += 1; i += 1; }
        i = 0; while i < 8 { assert!(s[p] == l2[i], "MAC_INPUT_LENGTHS: le64(64 + mlen)"); p += 1; i += 1; }
    }
}

/// post-state of an accepted push/pull step (before any rekey): counter + 1, inonce ^= mac[0..8], key unchanged
fn check_step_state(k0: &[u8; 32], n0: &[u8; 12], mac: &[u8; 16], tagbyte: u8, st: &State) {
    let ctr = u32::from_le_bytes([n0[0], n0[1], n0[2], n0[3]]).wrapping_add(1);
    let cb = ctr.to_le_bytes();
    let mut want = *n0;
    want[0] = cb[0]; want[1] = cb[1]; want[2] = cb[2]; want[3] = cb[3];
    let mut i = 0; while i < 8 { want[4 + i] = n0[4 + i] ^ mac[i]; i += 1; }
    let must_rekey = (tagbyte & 0x02) != 0 || ctr == 0;
    unsafe {
        if must_rekey {
            assert!(RKS.n == 1, "REKEY_TAKEN: a REKEY/FINAL tag or a message counter wrapping to zero rekeys the stream");
            assert!(RKS.k == *k0 && RKS.nonce == want, "REKEY_FROM_STEPPED_STATE: rekeying starts from the stepped state (counter + 1, inonce ^ mac)");
        } else {
            assert!(RKS.n == 0, "REKEY_NOT_TAKEN: no rekey without a REKEY bit or a counter wrap");
        }
    }
    let (k1, n1) = st.verif_parts();
    assert!(*k1 == *k0, "STEP_KEY_UNCHANGED: a step does not touch the key (rekey aside)");
    assert!(*n1 == want, "STEP_NONCE: counter' = counter + 1 (LE, 32 bit), inonce' = inonce ^ mac[0..8]");
}
'''

REKEY_STUB = [("crate::classic::crypto_secretstream_xchacha20poly1305::crypto_secretstream_xchacha20poly1305_rekey", "rekey_log_stub")]


def h_push_a(name, mlen, adlen):
    return rs.hdr(("barrier", "fmt") + rs.MAC, extra=REKEY_STUB) + r'''
fn %(name)s() {
    let k0: [u8; 32] = kani::any(); let n0: [u8; 12] = kani::any(); let m: [u8; %(mlen)d] = kani::any(); let ad: [u8; %(adlen)d] = kani::any(); let tag: u8 = kani::any();
    wit!(W_0, &k0); wit!(W_1, &n0); wit!(W_2, &m); wit!(W_3, &ad); wit!(W_4, &[tag]);
    let mac: [u8; 16] = kani::any(); unsafe { AES.mac_out[0] = mac; }
    let mut st = State::verif_from_parts(k0, n0);
    let mut c = [0u8; %(mlen)d + 17];
    let r = crypto_secretstream_xchacha20poly1305_push(&mut st, &mut c, &m, %(adarg)s, tag);
    kani::cover!(r.is_ok(), "push returned Ok");
    kani::cover!(r.is_ok() && n0[0] == 0xff && n0[1] == 0xff && n0[2] == 0xff && n0[3] == 0xff, "counter 0xffffffff reached");
    kani::cover!(r.is_ok() && (tag & 2) != 0, "REKEY-class tag reached");
    assert!(r.is_ok(), "PUSH_OK: push succeeds on a correctly sized buffer");
    check_mac_transcript(&ad, c[0], &c[1..1 + %(mlen)d]);
    let mut i = 0; while i < 16 { assert!(c[1 + %(mlen)d + i] == mac[i], "PUSH_TAG_APPENDED: the MAC is appended after the ciphertext"); i += 1; }
    check_step_state(&k0, &n0, &mac, tag, &st);
}
''' % dict(name=name, mlen=mlen, adlen=adlen, adarg=("Some(&ad)" if adlen else "None"))


def h_pull_a(name, mlen, adlen):
    return rs.hdr(("barrier", "fmt") + rs.MAC, extra=REKEY_STUB) + r'''
fn %(name)s() {
    let k0: [u8; 32] = kani::any(); let n0: [u8; 12] = kani::any(); let c: [u8; %(mlen)d + 17] = kani::any(); let ad: [u8; %(adlen)d] = kani::any();
    wit!(W_0, &k0); wit!(W_1, &n0); wit!(W_2, &c); wit!(W_3, &ad);
    let mac: [u8; 16] = kani::any(); unsafe { AES.mac_out[0] = mac; }
    let mut st = State::verif_from_parts(k0, n0);
    let mut out = [0u8; %(mlen)d]; let mut tagout: u8 = 0;
    let r = crypto_secretstream_xchacha20poly1305_pull(&mut st, &mut out, &mut tagout, &c, %(adarg)s);
    let mut same = true; let mut i = 0; while i < 16 { if c[1 + %(mlen)d + i] != mac[i] { same = false; } i += 1; }
    kani::cover!(r.is_ok(), "accepting pull reachable");
    kani::cover!(r.is_err(), "rejecting pull reachable");
    kani::cover!(r.is_ok() && n0[0] == 0xff && n0[1] == 0xff && n0[2] == 0xff && n0[3] == 0xff, "counter 0xffffffff reached");
    kani::cover!(r.is_ok() && n0[0] == 0xfe && n0[1] == 0xff && n0[2] == 0xff && n0[3] == 0xff, "counter 0xfffffffe reached");
    assert!(r.is_ok() == same, "PULL_VERDICT: Ok exactly when all 16 presented tag bytes equal the MAC");
    check_mac_transcript(&ad, c[0], &c[1..1 + %(mlen)d]);
    if let Ok(n) = r {
        assert!(n == %(mlen)d, "PULL_LENGTH: returned length = ciphertext length - 17");
        check_step_state(&k0, &n0, &mac, tagout, &st);
    }
}
''' % dict(name=name, mlen=mlen, adlen=adlen, adarg=("Some(&ad)" if adlen else "None"))


def lit(b):
    return "[" + ", ".join(str(x) for x in b) + "]"


def h_b(name, key, inonce, ctr, mlen):
    n = list(ctr.to_bytes(4, "little")) + inonce
    return rs.hdr(("barrier", "fmt") + rs.MAC) + r'''
fn %(name)s() {
    let k0: [u8; 32] = %(k)s; let n0: [u8; 12] = %(n)s;
    let m: [u8; %(mlen)d] = kani::any(); let tag: u8 = kani::any();
    wit!(W_2, &m); wit!(W_4, &[tag]);
    let mac: [u8; 16] = kani::any(); unsafe { AES.mac_out[0] = mac; AES.mac_out[1] = mac; }
    let ks0 = chacha_block(&k0, 0, &n0); let ks1 = chacha_block(&k0, 1, &n0); let ks2 = chacha_block(&k0, 2, &n0); let ks3 = chacha_block(&k0, 3, &n0);
    let mut st = State::verif_from_parts(k0, n0);
    let mut c = [0u8; %(mlen)d + 17];
    let r = crypto_secretstream_xchacha20poly1305_push(&mut st, &mut c, &m, None, tag);
    kani::cover!(r.is_ok(), "push returned Ok");
    assert!(r.is_ok(), "PUSH_OK: push succeeds");
    unsafe {
        let mut i = 0; while i < 32 { assert!(AES.mac_key[0][i] == ks0[i], "MAC_KEY: the one-time MAC key is keystream block 0, bytes 0..32, under the current (k, nonce)"); i += 1; }
        assert!(AES.mac_stream[0][0] == (tag ^ ks1[0]), "TAG_BLOCK: block = (tag, 0^63) xor keystream block 1");
        i = 1; while i < 64 { assert!(AES.mac_stream[0][i] == ks1[i], "TAG_BLOCK: block = (tag, 0^63) xor keystream block 1"); i += 1; }
    }
    assert!(c[0] == (tag ^ ks1[0]), "CIPHERTEXT_TAG_BYTE: c[0] = tag xor keystream block 1 byte 0");
    let mut i = 0;
    while i < %(mlen)d {
        let ks = if i < 64 { ks2[i] } else { ks3[i - 64] };
        assert!(c[1 + i] == (m[i] ^ ks), "CIPHERTEXT_BODY: c[1 + i] = m[i] xor keystream from block 2 on");
        i += 1;
    }
    // post-state incl. the REAL rekey, against libsodium's algorithm
    let ctr = u32::from_le_bytes([n0[0], n0[1], n0[2], n0[3]]).wrapping_add(1);
    let cb = ctr.to_le_bytes();
    let mut n1 = n0; n1[0] = cb[0]; n1[1] = cb[1]; n1[2] = cb[2]; n1[3] = cb[3];
    i = 0; while i < 8 { n1[4 + i] = n0[4 + i] ^ mac[i]; i += 1; }
    let mut k1 = k0;
    if (tag & 2) != 0 || ctr == 0 {
        let r0 = chacha_block(&k1, 0, &n1);
        i = 0; while i < 32 { k1[i] ^= r0[i]; i += 1; }
        i = 0; while i < 8 { n1[4 + i] ^= r0[32 + i]; i += 1; }
        n1[0] = 1; n1[1] = 0; n1[2] = 0; n1[3] = 0;
    }
    {
        let (k2, n2) = st.verif_parts();
        assert!(*k2 == k1 && *n2 == n1, "PUSH_STATE_LIBSODIUM: state after push (incl. automatic rekey) equals libsodium's");
    }
}
''' % dict(name=name, k=lit(key), n=lit(n), mlen=mlen)


def h_b_pull(name, key, inonce, ctr, mlen):
    n = list(ctr.to_bytes(4, "little")) + inonce
    return rs.hdr(("barrier", "fmt") + rs.MAC) + r'''
fn %(name)s() {
    let k0: [u8; 32] = %(k)s; let n0: [u8; 12] = %(n)s;
    let m: [u8; %(mlen)d] = kani::any(); let tag: u8 = kani::any();
    wit!(W_2, &m); wit!(W_4, &[tag]);
    let mac: [u8; 16] = kani::any(); unsafe { AES.mac_out[0] = mac; }
    // the ciphertext libsodium's push produces for (m, tag) in this state, built from the harness's own ChaCha20
    let ks1 = chacha_block(&k0, 1, &n0); let ks2 = chacha_block(&k0, 2, &n0); let ks3 = chacha_block(&k0, 3, &n0);
    let mut c = [0u8; %(mlen)d + 17];
    c[0] = tag ^ ks1[0];
    let mut i = 0;
    while i < %(mlen)d { let ks = if i < 64 { ks2[i] } else { ks3[i - 64] }; c[1 + i] = m[i] ^ ks; i += 1; }
    i = 0; while i < 16 { c[1 + %(mlen)d + i] = mac[i]; i += 1; }
    let mut st = State::verif_from_parts(k0, n0);
    let mut out = [0u8; %(mlen)d]; let mut tagout: u8 = 0;
    let r = crypto_secretstream_xchacha20poly1305_pull(&mut st, &mut out, &mut tagout, &c, None);
    kani::cover!(r.is_ok(), "pull accepted");
    assert!(r.is_ok(), "PULL_ACCEPTS_PUSHED: the in-order ciphertext is accepted");
    assert!(tagout == tag, "PULL_TAG: pull returns the pushed tag byte (any of 256)");
    i = 0; while i < %(mlen)d { assert!(out[i] == m[i], "PULL_MESSAGE: pull recovers the pushed message"); i += 1; }
    let ctr = u32::from_le_bytes([n0[0], n0[1], n0[2], n0[3]]).wrapping_add(1);
    let cb = ctr.to_le_bytes();
    let mut n1 = n0; n1[0] = cb[0]; n1[1] = cb[1]; n1[2] = cb[2]; n1[3] = cb[3];
    i = 0; while i < 8 { n1[4 + i] = n0[4 + i] ^ mac[i]; i += 1; }
    let mut k1 = k0;
    if (tag & 2) != 0 || ctr == 0 {
        let r0 = chacha_block(&k1, 0, &n1);
        i = 0; while i < 32 { k1[i] ^= r0[i]; i += 1; }
        i = 0; while i < 8 { n1[4 + i] ^= r0[32 + i]; i += 1; }
        n1[0] = 1; n1[1] = 0; n1[2] = 0; n1[3] = 0;
    }
    let (k2, n2) = st.verif_parts();
    assert!(*k2 == k1 && *n2 == n1, "PULL_STATE_LOCKSTEP: pull's state (incl. automatic rekey) equals libsodium's / push's after a matched pair");
}
''' % dict(name=name, k=lit(key), n=lit(n), mlen=mlen)


def h_rekey_b(name, key, inonce, ctr):
    n = list(ctr.to_bytes(4, "little")) + inonce
    return rs.hdr(("barrier", "fmt")) + r'''
fn %(name)s() {
    let k0: [u8; 32] = %(k)s; let n0: [u8; 12] = %(n)s;
    let mut st = State::verif_from_parts(k0, n0);
    crypto_secretstream_xchacha20poly1305_rekey(&mut st);
    kani::cover!(true, "rekey returned");
    let r0 = chacha_block(&k0, 0, &n0);
    let mut k1 = k0; let mut n1 = n0;
    let mut i = 0; while i < 32 { k1[i] ^= r0[i]; i += 1; }
    i = 0; while i < 8 { n1[4 + i] ^= r0[32 + i]; i += 1; }
    n1[0] = 1; n1[1] = 0; n1[2] = 0; n1[3] = 0;
    let (k2, n2) = st.verif_parts();
    assert!(*k2 == k1 && *n2 == n1, "REKEY_LIBSODIUM: (k, inonce) ^= keystream under the current (k, nonce); counter = 1");
}
''' % dict(name=name, k=lit(key), n=lit(n))


INIT = r'''
pub struct HcState { pub magic: u64, pub n: usize, pub input: [u8; 16], pub key: [u8; 32], pub out: [u8; 32], pub consts_none: bool }
pub static mut HCS: HcState = HcState { magic: 0x4843000953EDC0DE, n: 0, input: [0; 16], key: [0; 32], out: [0; 32], consts_none: false };
fn hchacha_log_stub(output: &mut [u8; 32], input: &[u8; 16], key: &[u8; 32], constants: Option<(u32, u32, u32, u32)>) {
    let o: [u8; 32] = kani::any();
    unsafe { HCS.input = *input; HCS.key = *key; HCS.out = o; HCS.consts_none = constants.is_none(); HCS.n += 1; }
    *output = o;
}
'''
HC_STUB = [("crate::classic::crypto_core::crypto_core_hchacha20", "hchacha_log_stub")]
RNG_STUB = [("<rand_core::OsRng as rand_core::TryRngCore>::try_fill_bytes", "rng_oracle_stub")]


def h_init(name, push):
    call = ("crypto_secretstream_xchacha20poly1305_init_push(&mut st, &mut header, &key);" if push
            else "crypto_secretstream_xchacha20poly1305_init_pull(&mut st, &header, &key);")
    return rs.hdr(("barrier", "fmt"), extra=HC_STUB + RNG_STUB) + r'''
fn %(name)s() {
    let key: [u8; 32] = kani::any(); let mut header: [u8; 24] = kani::any();
    let mut st = State::new();
    %(call)s
    kani::cover!(true, "init returned");
    unsafe {
        assert!(HCS.n == 1 && HCS.key == key && HCS.consts_none, "INIT_SUBKEY: k = HChaCha20(key, header[0..16]) with the default constants");
        let mut i = 0; while i < 16 { assert!(HCS.input[i] == header[i], "INIT_SUBKEY: HChaCha20 input is header[0..16]"); i += 1; }
        let (k, n) = st.verif_parts();
        assert!(*k == HCS.out, "INIT_SUBKEY: the stream key is the HChaCha20 output");
        assert!(n[0] == 1 && n[1] == 0 && n[2] == 0 && n[3] == 0, "INIT_COUNTER: the message counter starts at 1");
        i = 0; while i < 8 { assert!(n[4 + i] == header[16 + i], "INIT_INONCE: inonce = header[16..24]"); i += 1; }
    }
}
''' % dict(name=name, call=call)


OBJ = r'''
pub struct FwState { pub magic: u64, pub n: usize, pub mlen: usize, pub clen: usize, pub tag: u8, pub ad_some: bool, pub adlen: usize, pub m0: u8, pub rk: usize }
pub static mut FWS: FwState = FwState { magic: 0x4657000A53EDC0DE, n: 0, mlen: 0, clen: 0, tag: 0, ad_some: false, adlen: 0, m0: 0, rk: 0 };
fn push_fw_stub(_s: &mut State, ciphertext: &mut [u8], message: &[u8], ad: Option<&[u8]>, tag: u8) -> Result<(), crate::error::Error> {
    unsafe { FWS.n += 1; FWS.mlen = message.len(); FWS.clen = ciphertext.len(); FWS.tag = tag; FWS.ad_some = ad.is_some(); FWS.adlen = ad.map(|a| a.len()).unwrap_or(0);
             FWS.m0 = if message.is_empty() { 0 } else { message[0] }; }
    let mut i = 0; while i < ciphertext.len() { ciphertext[i] = 0xc5; i += 1; }
    Ok(())
}
fn pull_fw_stub(_s: &mut State, message: &mut [u8], tag: &mut u8, ciphertext: &[u8], ad: Option<&[u8]>) -> Result<usize, crate::error::Error> {
    unsafe { FWS.n += 1; FWS.mlen = message.len(); FWS.clen = ciphertext.len(); FWS.ad_some = ad.is_some(); FWS.adlen = ad.map(|a| a.len()).unwrap_or(0); }
    let t: u8 = kani::any(); *tag = t; unsafe { FWS.tag = t; }
    let mut i = 0; while i < message.len() { message[i] = 0x5c; i += 1; }
    Ok(message.len())
}
fn rekey_fw_stub(_s: &mut State) { unsafe { FWS.rk += 1; } }
'''
FW_STUBS = [("crate::classic::crypto_secretstream_xchacha20poly1305::crypto_secretstream_xchacha20poly1305_push", "push_fw_stub"),
            ("crate::classic::crypto_secretstream_xchacha20poly1305::crypto_secretstream_xchacha20poly1305_pull", "pull_fw_stub"),
            ("crate::classic::crypto_secretstream_xchacha20poly1305::crypto_secretstream_xchacha20poly1305_rekey", "rekey_fw_stub")]

H_OBJ = r'''
fn c03_object_forwarding() {
    use crate::dryocstream::*;
    let key: [u8; 32] = kani::any();
    let (mut ps, header): (DryocStream<Push>, Header) = DryocStream::init_push(&key);
    let m: Vec<u8> = vec![kani::any(), kani::any(), kani::any()];
    let ad: Vec<u8> = vec![kani::any(), kani::any()];
    let tagbits: u8 = kani::any(); kani::assume(tagbits < 4);
    let c = ps.push_to_vec(&m, Some(&ad), Tag::from_bits_retain(tagbits));
    kani::cover!(c.is_ok(), "push forwarded");
    assert!(c.is_ok(), "OBJ_PUSH_OK");
    let c = c.unwrap();
    unsafe {
        assert!(FWS.n == 1 && FWS.mlen == 3 && FWS.clen == 3 + 17 && FWS.tag == tagbits && FWS.ad_some && FWS.adlen == 2 && FWS.m0 == m[0], "OBJ_PUSH_FORWARDS: DryocStream::push calls the classic push with the same message, AD, tag bits and a (len + 17)-byte buffer");
    }
    assert!(c.len() == 20 && c[0] == 0xc5 && c[19] == 0xc5, "OBJ_PUSH_RETURNS_CIPHERTEXT: the classic call's output is returned unchanged");
    ps.rekey();
    unsafe { assert!(FWS.rk == 1, "OBJ_REKEY_FORWARDS: DryocStream::rekey calls the classic rekey"); }
    let mut pl = DryocStream::init_pull(&key, &header);
    let r = pl.pull_to_vec(&c, Some(&ad));
    unsafe {
        assert!(FWS.n == 2 && FWS.clen == 20 && FWS.mlen == 3 && FWS.ad_some && FWS.adlen == 2, "OBJ_PULL_FORWARDS: DryocStream::pull calls the classic pull with the ciphertext, AD and a (len - 17)-byte buffer");
        if let Ok((mm, t)) = r {
            assert!(mm.len() == 3 && mm[0] == 0x5c, "OBJ_PULL_RETURNS_MESSAGE: the classic call's output is returned unchanged");
            assert!(t.bits() == FWS.tag, "OBJ_PULL_RETURNS_TAG: the tag byte is returned with all its bits");
        } else { assert!(false, "OBJ_PULL_OK: an accepted pull returns Ok for every tag byte"); }
    }
}
'''


def suites(tier, seed):
    rnd = random.Random(1000 + seed)
    src = rs.prelude() + rs.load("aead.rs") + rs.load("rng.rs") + BODY + INIT + OBJ
    hs = []
    shapes = [(0, 0), (1, 0), (17, 5), (3, 21), (65, 16)] if tier == "quick" else [(0, 0), (1, 0), (15, 1), (16, 16), (17, 17), (63, 0), (64, 5), (65, 16), (80, 33)]
    for (mlen, adlen) in shapes:
        for kind, gen in (("push", h_push_a), ("pull", h_pull_a)):
            n = "c03_%s_anystate_m%d_ad%d" % (kind, mlen, adlen)
            src += gen(n, mlen, adlen)
            hs.append(Harness(n, unwind=max(70, mlen + 20), timeout=2400, site=kind,
                              desc="%s from an arbitrary 44-byte state (all 2^32 counters), message %d bytes, AD %d bytes, symbolic tag byte / MAC: transcript, post-state, rekey condition" % (kind, mlen, adlen),
                              bounds={"mlen": mlen, "adlen": adlen, "state": "symbolic (k, nonce)"}))
    K = 1 if tier == "quick" else 3
    ctrs = [1, 0xffffffff] if tier == "quick" else [1, 0x7fffffff, 0xfffffffe, 0xffffffff]
    for ki in range(K):
        key = [rnd.randrange(256) for _ in range(32)]
        inonce = [rnd.randrange(256) for _ in range(8)]
        for ctr in ctrs:
            for mlen in ([5] if tier == "quick" else [0, 5, 64, 65]):
                n = "c03_push_literal_k%d_c%08x_m%d" % (ki, ctr, mlen)
                src += h_b(n, key, inonce, ctr, mlen)
                hs.append(Harness(n, unwind=max(70, mlen + 20), timeout=2400, site="push(literal state)",
                                  desc="literal (key, nonce) instance, counter %#x, symbolic %d-byte message and tag: MAC key, tag block, ciphertext and post-state (real rekey) vs the harness's ChaCha20" % (ctr, mlen),
                                  bounds={"mlen": mlen, "counter": ctr, "key": "literal (seeded)"}))
                if tier == "quick" and ctr == 0xffffffff:
                    continue    # ~15 min on its own; the wrap-around pull at a literal key is in the thorough tier (the A-type pull harnesses cover all 2^32 counters)
                n = "c03_pull_literal_k%d_c%08x_m%d" % (ki, ctr, mlen)
                src += h_b_pull(n, key, inonce, ctr, mlen)
                hs.append(Harness(n, unwind=max(70, mlen + 20), timeout=2400, site="pull(literal state)",
                                  desc="literal (key, nonce) instance, counter %#x: pull of libsodium's ciphertext for a symbolic %d-byte message and tag recovers both and lands in libsodium's state" % (ctr, mlen),
                                  bounds={"mlen": mlen, "counter": ctr, "key": "literal (seeded)"}))
            n = "c03_rekey_literal_k%d_c%08x" % (ki, ctr)
            src += h_rekey_b(n, key, inonce, ctr)
            hs.append(Harness(n, unwind=70, timeout=1200, site="rekey(literal state)", desc="explicit rekey at a literal state == libsodium's algorithm", bounds={"counter": ctr}))
    for nm, push in (("c03_init_push", True), ("c03_init_pull", False)):
        src += h_init(nm, push)
        hs.append(Harness(nm, unwind=70, timeout=900, site=nm[4:], desc="stream initialisation: HChaCha20 arguments, inonce, counter = 1 (symbolic key/header)", bounds={}))
    src += rs.hdr(("barrier", "fmt"), extra=FW_STUBS + HC_STUB + RNG_STUB) + H_OBJ
    hs.append(Harness("c03_object_forwarding", unwind=70, timeout=900, site="DryocStream", desc="object API forwards push/pull/rekey to the classic calls unchanged", bounds={}))
    return [Suite("C03", src, hs, stubs=rs.stub_names(("barrier", "fmt") + rs.MAC, extra=REKEY_STUB + HC_STUB + FW_STUBS + RNG_STUB),
                  functions=["classic::crypto_secretstream_xchacha20poly1305::{init_push,init_pull,push,pull,rekey,state_counter,state_inonce,counter_reset}",
                             "utils::{increment_bytes,xor_buf,pad16}", "dryocstream::DryocStream::{init_push,init_pull,push,pull,rekey}"],
                  assumptions=ASSUMPTIONS)]


NATIVE = r'''
// native replay against libsodium driven from the same state: the stream state is set through the raw 44 state bytes
use dryoc::classic::crypto_secretstream_xchacha20poly1305::*;
extern crate libsodium_sys;   // links libsodium
extern "C" {
    fn crypto_secretstream_xchacha20poly1305_push(state: *mut u8, c: *mut u8, clen: *mut u64, m: *const u8, mlen: u64, ad: *const u8, adlen: u64, tag: u8) -> i32;
    fn crypto_secretstream_xchacha20poly1305_pull(state: *mut u8, m: *mut u8, mlen: *mut u64, tag: *mut u8, c: *const u8, clen: u64, ad: *const u8, adlen: u64) -> i32;
}
fn dryoc_state(k: &[u8; 32], n: &[u8; 12]) -> State {
    // State is { k: [u8; 32], nonce: [u8; 12] } with no padding; detect the field order at run time
    let mut st = State::new();
    let p = &mut st as *mut State as *mut u8;
    let probe = { let mut s = State::new(); let mut h = [0u8; 24]; h[16] = 0xEE; crypto_secretstream_xchacha20poly1305_init_pull(&mut s, &h, &[0u8; 32]); s };
    let pb = unsafe { std::slice::from_raw_parts(&probe as *const State as *const u8, 44) };
    let nonce_first = pb[0] == 1 && pb[4] == 0xEE;
    unsafe {
        if nonce_first { std::ptr::copy_nonoverlapping(n.as_ptr(), p, 12); std::ptr::copy_nonoverlapping(k.as_ptr(), p.add(12), 32); }
        else { std::ptr::copy_nonoverlapping(k.as_ptr(), p, 32); std::ptr::copy_nonoverlapping(n.as_ptr(), p.add(32), 12); }
    }
    st
}
fn dump(st: &State) -> ([u8; 32], [u8; 12]) {
    let probe = { let mut s = State::new(); let mut h = [0u8; 24]; h[16] = 0xEE; crypto_secretstream_xchacha20poly1305_init_pull(&mut s, &h, &[0u8; 32]); s };
    let pb = unsafe { std::slice::from_raw_parts(&probe as *const State as *const u8, 44) };
    let nonce_first = pb[0] == 1 && pb[4] == 0xEE;
    let b = unsafe { std::slice::from_raw_parts(st as *const State as *const u8, 44) };
    let mut k = [0u8; 32]; let mut n = [0u8; 12];
    if nonce_first { n.copy_from_slice(&b[..12]); k.copy_from_slice(&b[12..]); } else { k.copy_from_slice(&b[..32]); n.copy_from_slice(&b[32..]); }
    (k, n)
}
fn main() {
    let k0: [u8; 32] = %(k)s; let n0: [u8; 12] = %(n)s;
    let m: Vec<u8> = vec!%(m)s; let ad: Vec<u8> = vec!%(ad)s; let tag: u8 = %(tag)d;
    let mut bad = false;
    // libsodium state layout: k[32] nonce[12] pad[8]
    let mut so = [0u8; 52]; so[..32].copy_from_slice(&k0); so[32..44].copy_from_slice(&n0);
    let mut so_pull = so;
    let mut c_so = vec![0u8; m.len() + 17];
    unsafe { crypto_secretstream_xchacha20poly1305_push(so.as_mut_ptr(), c_so.as_mut_ptr(), std::ptr::null_mut(), m.as_ptr(), m.len() as u64, ad.as_ptr(), ad.len() as u64, tag); }
    let mut st = dryoc_state(&k0, &n0);
    let mut c = vec![0u8; m.len() + 17];
    dryoc::classic::crypto_secretstream_xchacha20poly1305::crypto_secretstream_xchacha20poly1305_push(&mut st, &mut c, &m, if ad.is_empty() { None } else { Some(&ad) }, tag).unwrap();
    if c != c_so { println!("MISMATCH push ciphertext differs from libsodium"); bad = true; }
    let (k1, n1) = dump(&st);
    if k1[..] != so[..32] || n1[..] != so[32..44] { println!("MISMATCH push state differs from libsodium: counter {:?} vs {:?}", &n1[..4], &so[32..36]); bad = true; }
    // pull of libsodium's ciphertext, both sides
    let mut st2 = dryoc_state(&k0, &n0);
    let mut out = vec![0u8; m.len()]; let mut tagout = 0u8;
    let r = dryoc::classic::crypto_secretstream_xchacha20poly1305::crypto_secretstream_xchacha20poly1305_pull(&mut st2, &mut out, &mut tagout, &c_so, if ad.is_empty() { None } else { Some(&ad) });
    let mut out_so = vec![0u8; m.len()]; let mut tag_so = 0u8;
    let rc = unsafe { crypto_secretstream_xchacha20poly1305_pull(so_pull.as_mut_ptr(), out_so.as_mut_ptr(), std::ptr::null_mut(), &mut tag_so, c_so.as_ptr(), c_so.len() as u64, ad.as_ptr(), ad.len() as u64) };
    if r.is_ok() != (rc == 0) { println!("MISMATCH pull verdict differs from libsodium"); bad = true; }
    if r.is_ok() {
        if out != m || tagout != tag { println!("MISMATCH pull output"); bad = true; }
        let (k2, n2) = dump(&st2);
        if k2[..] != so_pull[..32] || n2[..] != so_pull[32..44] { println!("MISMATCH pull state differs from libsodium: counter {:?} vs {:?}", &n2[..4], &so_pull[32..36]); bad = true; }
        // the genuine next ciphertext must still be accepted
        let mut c2 = vec![0u8; 1 + 17];
        unsafe { crypto_secretstream_xchacha20poly1305_push(so.as_mut_ptr(), c2.as_mut_ptr(), std::ptr::null_mut(), b"z".as_ptr(), 1, std::ptr::null(), 0, 0); }
        let mut o2 = [0u8; 1]; let mut t2 = 0u8;
        if dryoc::classic::crypto_secretstream_xchacha20poly1305::crypto_secretstream_xchacha20poly1305_pull(&mut st2, &mut o2, &mut t2, &c2, None).is_err() { println!("MISMATCH genuine next ciphertext rejected"); bad = true; }
    }
    if bad { std::process::exit(1); }
    println!("agree");
}
'''


def replay(v, scratch):
    """Replay against libsodium (linked natively) from the witness state, message, AD and tag."""
    w = v.get("witness", {})
    h = v["harness"]
    import re
    m = re.search(r"_m(\d+)(?:_ad(\d+))?", h)
    mlen = int(m.group(1)) if m else 1
    adlen = int(m.group(2) or 0) if m else 0
    k = (w.get("W_0") or [])[:32]; k += [0] * (32 - len(k))
    n = (w.get("W_1") or [])[:12]; n += [0] * (12 - len(n))
    if "literal" in h:
        src = v.get("harness_src", "")
        # literal instances: recover key/nonce from the generated harness name is not possible; re-derive from the seed
        rnd = random.Random(1000 + int(__import__("os").environ.get("VERIF_SEED", "0") or 0))
        ki = int(re.search(r"_k(\d+)_", h).group(1))
        for _ in range(ki + 1):
            key = [rnd.randrange(256) for _ in range(32)]
            inonce = [rnd.randrange(256) for _ in range(8)]
        ctr = int(re.search(r"_c([0-9a-f]{8})", h).group(1), 16)
        k = key
        n = list(ctr.to_bytes(4, "little")) + inonce
    if "pull_anystate" in h:
        msg = [0x61] * mlen
    else:
        msg = ((w.get("W_2") or [])[:mlen] + [0] * mlen)[:mlen]
    ad = ((w.get("W_3") or [])[:adlen] + [0] * adlen)[:adlen]
    tag = (w.get("W_4") or [0])[0] if "pull_anystate" not in h else 0
    main = NATIVE % dict(k=runner.rust_bytes(k), n=runner.rust_bytes(n), m=runner.rust_bytes(msg), ad=runner.rust_bytes(ad), tag=tag)
    outs = runner.native_run(scratch, "c03", main, extra_deps='libsodium-sys = "0.2"\n')
    v["replay_input"] = {"k": k, "nonce": n, "message": msg, "ad": ad, "tag": tag, "program": main}
    repro = any(rc == 1 and "MISMATCH" in o for _, rc, o in outs)
    return repro, "; ".join("%s rc=%s %s" % (p, rc, o.strip()[-300:]) for p, rc, o in outs)
