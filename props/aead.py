"""Shared description of the opening entry points ("sites") used by C17, C02 and C04.

Each site is a small typed program: declarations of its inputs, the call, and where the
caller-visible outputs are. The same text is instantiated as a Kani harness (inputs =
kani::any(), Poly1305 replaced by an ideal MAC with a symbolic tag, X25519 by a contract
stub) and as a native replay program (inputs = the solver's witness, real primitives).
"""
from vlib import rs, runner

USES = r'''
use crate::classic::crypto_secretbox::*;
use crate::classic::crypto_box::*;
use crate::classic::crypto_secretstream_xchacha20poly1305::*;
'''

NATIVE_USES = r'''
#![allow(unused, dead_code)]
use dryoc::classic::crypto_secretbox::*;
use dryoc::classic::crypto_box::*;
use dryoc::classic::crypto_secretstream_xchacha20poly1305::*;
use dryoc::constants::*;
'''


def sites(n, adlen=0, with_seal=True):
    """opening sites for a message of literal length n. `tagexpr` is the presented tag.
    In crypto_box_seal_open the nonce derivation (BLAKE2b over epk || rpk, checked in C01) is replaced by an
    arbitrary nonce: with the real generichash calls the expect() paths drag in io::Error's Debug formatting
    and symex runs out of memory."""
    N = n
    S = []
    S.append(dict(name="secretbox_open_detached", stubs=rs.MAC,
                  decl=[("key", 32), ("nonce", 24), ("tag", 16), ("c", N), ("pre", N)],
                  init="let mut out = pre;", call="crypto_secretbox_open_detached(&mut out, &tag, &c, &nonce, &key)",
                  out="out", orig="pre", outlen=N, tagexpr="tag", ctexpr="c", ctlen=N))
    S.append(dict(name="secretbox_open_easy", stubs=rs.MAC,
                  decl=[("key", 32), ("nonce", 24), ("boxed", N + 16), ("pre", N)],
                  init="let mut out = pre;", call="crypto_secretbox_open_easy(&mut out, &boxed, &nonce, &key)",
                  out="out", orig="pre", outlen=N, tagexpr="boxed[..16]", ctexpr="boxed[16..]", ctlen=N))
    S.append(dict(name="secretbox_open_easy_inplace", stubs=rs.MAC,
                  decl=[("key", 32), ("nonce", 24), ("boxed", N + 16)],
                  init="let mut out = boxed;", call="crypto_secretbox_open_easy_inplace(&mut out, &nonce, &key)",
                  out="out", orig="boxed", outlen=N + 16, tagexpr="boxed[..16]", ctexpr="boxed[16..]", ctlen=N))
    S.append(dict(name="box_open_detached_afternm", stubs=rs.MAC,
                  decl=[("key", 32), ("nonce", 24), ("tag", 16), ("c", N), ("pre", N)],
                  init="let mut out = pre;", call="crypto_box_open_detached_afternm(&mut out, &tag, &c, &nonce, &key)",
                  out="out", orig="pre", outlen=N, tagexpr="tag", ctexpr="c", ctlen=N))
    S.append(dict(name="box_open_detached_afternm_inplace", stubs=rs.MAC,
                  decl=[("key", 32), ("nonce", 24), ("tag", 16), ("c", N)],
                  init="let mut out = c;", call="crypto_box_open_detached_afternm_inplace(&mut out, &tag, &nonce, &key)",
                  out="out", orig="c", outlen=N, tagexpr="tag", ctexpr="c", ctlen=N))
    S.append(dict(name="box_open_detached", stubs=rs.MAC + ("scalarmult",),
                  decl=[("pk", 32), ("sk", 32), ("nonce", 24), ("tag", 16), ("c", N), ("pre", N)],
                  init="let mut out = pre;", call="crypto_box_open_detached(&mut out, &tag, &c, &nonce, &pk, &sk)",
                  out="out", orig="pre", outlen=N, tagexpr="tag", ctexpr="c", ctlen=N, dh=True))
    S.append(dict(name="box_open_detached_inplace", stubs=rs.MAC + ("scalarmult",),
                  decl=[("pk", 32), ("sk", 32), ("nonce", 24), ("tag", 16), ("c", N)],
                  init="let mut out = c;", call="crypto_box_open_detached_inplace(&mut out, &tag, &nonce, &pk, &sk)",
                  out="out", orig="c", outlen=N, tagexpr="tag", ctexpr="c", ctlen=N, dh=True))
    S.append(dict(name="box_open_easy", stubs=rs.MAC + ("scalarmult",),
                  decl=[("pk", 32), ("sk", 32), ("nonce", 24), ("boxed", N + 16), ("pre", N)],
                  init="let mut out = pre;", call="crypto_box_open_easy(&mut out, &boxed, &nonce, &pk, &sk)",
                  out="out", orig="pre", outlen=N, tagexpr="boxed[..16]", ctexpr="boxed[16..]", ctlen=N, dh=True))
    S.append(dict(name="box_open_easy_inplace", stubs=rs.MAC + ("scalarmult",),
                  decl=[("pk", 32), ("sk", 32), ("nonce", 24), ("boxed", N + 16)],
                  init="let mut out = boxed;", call="crypto_box_open_easy_inplace(&mut out, &nonce, &pk, &sk)",
                  out="out", orig="boxed", outlen=N + 16, tagexpr="boxed[..16]", ctexpr="boxed[16..]", ctlen=N, dh=True))
    if with_seal:
      S.append(dict(name="box_seal_open", stubs=rs.MAC + ("scalarmult", "seal_nonce"),
                  decl=[("pk", 32), ("sk", 32), ("sealed", N + 48), ("pre", N)],
                  init="let mut out = pre;", call="crypto_box_seal_open(&mut out, &sealed, &pk, &sk)",
                  out="out", orig="pre", outlen=N, tagexpr="sealed[32..48]", ctexpr="sealed[48..]", ctlen=N, dh=True, seal=True))
    S.append(dict(name="secretstream_pull", stubs=rs.MAC,
                  decl=[("sk", 32), ("snonce", 12), ("c", N + 17), ("pre", N), ("ad", adlen), ("pretag", 1)],
                  init="let mut out = pre; let mut st = State::verif_from_parts(sk, snonce); let mut tagout: u8 = pretag[0];",
                  call="crypto_secretstream_xchacha20poly1305_pull(&mut st, &mut out, &mut tagout, &c, %s)" % ("Some(&ad)" if adlen else "None"),
                  out="out", orig="pre", outlen=N, tagexpr="c[%d..]" % (N + 1), ctexpr="c[1..%d]" % (N + 1), ctlen=N, stream=True, adlen=adlen))
    return S


def decls_symbolic(site):
    lines = []
    for i, (nm, ln) in enumerate(site["decl"]):
        lines.append("    let %s: [u8; %d] = kani::any();" % (nm, ln))
        if i < 6 and ln <= 160:
            lines.append("    wit!(W_%d, &%s);" % (i, nm))
    return "\n".join(lines)


def decls_native(site, witness):
    lines = []
    for i, (nm, ln) in enumerate(site["decl"]):
        b = (witness.get("W_%d" % i) or [])[:ln]
        b = b + [0] * (ln - len(b))
        if nm in ("pre",) and not any(b):
            b = [0xAA] * ln
        if nm == "pretag" and not any(b):
            b = [0x77]
        lines.append("    let %s: [u8; %d] = %s;" % (nm, ln, runner.rust_bytes(b)))
    return "\n".join(lines)
