"""C05 - X25519 is exact for every scalar and point; DH and key exchange agree (dryoc's part).

curve25519-dalek's ladder is the trusted base (symbolic x symbolic field multiplication is
out of reach for a bit-blasting back end); what the solver decides, for all 2^256 scalars and
all 2^256 point encodings, is what dryoc feeds it: the integer that reaches the ladder is
clamp(n) ITSELF (not clamp(n) reduced mod the group order - that differs on the twist and on
points with a small-order component), the point bytes are p unmodified, the output is the
library's result unmodified; the base-point variant may reduce mod l (the base point has
order l). Box precomputation = HSalsa20(q, 0) (C02). Key exchange: BLAKE2b-64 over
q || client_pk || server_pk via the compress transcript, rx/tx split mirrored between client
and server, and an all-zero shared secret is refused."""
from vlib.engine import Harness, Suite
from vlib import rs, runner

ASSUMPTIONS = [
    "curve25519-dalek's Montgomery ladder computes RFC 7748 X25519 for the scalar and point it is given (incl. twist / small-order / non-canonical inputs)",
    "Scalar::from_bytes_mod_order contract: result < l and input < l => result == input",
    "DH commutativity is a group-law fact (not solver-checked)",
]
OUTSIDE = ["field / group arithmetic inside curve25519-dalek"]

BODY = r'''
use crate::classic::crypto_core::*;
use crate::classic::crypto_kx::*;
use curve25519_dalek::montgomery::MontgomeryPoint;
use curve25519_dalek::edwards::EdwardsBasepointTable;

pub struct LdState { pub magic: u64, pub n: usize, pub scalar: [u8; 32], pub point: [u8; 32], pub out: [u8; 32],
                     pub bp_n: usize, pub bp_scalar: [u8; 32], pub bp_clamped_api: bool, pub tm_n: usize, pub tm_out: [u8; 32] }
pub static mut LDS: LdState = LdState { magic: 0x4C44000B53EDC0DE, n: 0, scalar: [0; 32], point: [0; 32], out: [0; 32],
                     bp_n: 0, bp_scalar: [0; 32], bp_clamped_api: false, tm_n: 0, tm_out: [0; 32] };
fn clamp_spec(n: &[u8; 32]) -> [u8; 32] { let mut s = *n; s[0] &= 248; s[31] &= 127; s[31] |= 64; s }

// variable-base ladder entry points of curve25519-dalek (whichever the code uses)
fn ladder_ref_stub<'a, 'b>(s: &'a Scalar, p: &'b MontgomeryPoint) -> MontgomeryPoint where 'a: 'a, 'b: 'b {
    let o: [u8; 32] = kani::any();
    unsafe { LDS.scalar = bytes_of(s); LDS.point = p.0; LDS.out = o; LDS.n += 1; }
    MontgomeryPoint(o)
}
fn ladder_clamped_stub(p: MontgomeryPoint, bytes: [u8; 32]) -> MontgomeryPoint {
    let o: [u8; 32] = kani::any();
    unsafe { LDS.scalar = clamp_spec(&bytes); LDS.point = p.0; LDS.out = o; LDS.n += 1; }   // mul_clamped clamps and runs the ladder on the unreduced integer
    MontgomeryPoint(o)
}
// fixed-base entry points
fn bp_table_mul_stub<'a, 'b>(_t: &'a EdwardsBasepointTable, s: &'b Scalar) -> EdwardsPoint where 'a: 'a, 'b: 'b {
    unsafe { LDS.bp_scalar = bytes_of(s); LDS.bp_n += 1; }
    any_point()
}
fn mont_base_clamped_stub(bytes: [u8; 32]) -> MontgomeryPoint {
    let o: [u8; 32] = kani::any();
    unsafe { LDS.bp_scalar = clamp_spec(&bytes); LDS.bp_clamped_api = true; LDS.bp_n += 1; LDS.tm_out = o; LDS.tm_n += 1; }
    MontgomeryPoint(o)
}
fn to_montgomery_stub(_p: &EdwardsPoint) -> MontgomeryPoint {
    let o: [u8; 32] = kani::any();
    unsafe { LDS.tm_out = o; LDS.tm_n += 1; }
    MontgomeryPoint(o)
}
'''

LADDER_STUBS = [("<&curve25519_dalek::scalar::Scalar as core::ops::Mul<&curve25519_dalek::montgomery::MontgomeryPoint>>::mul", "ladder_ref_stub"),
                ("curve25519_dalek::montgomery::MontgomeryPoint::mul_clamped", "ladder_clamped_stub"),
                ("<&curve25519_dalek::edwards::EdwardsBasepointTable as core::ops::Mul<&curve25519_dalek::scalar::Scalar>>::mul", "bp_table_mul_stub"),
                ("curve25519_dalek::montgomery::MontgomeryPoint::mul_base_clamped", "mont_base_clamped_stub"),
                ("curve25519_dalek::edwards::EdwardsPoint::to_montgomery", "to_montgomery_stub")]

H = {}
H["c05_scalarmult"] = ("crypto_scalarmult", ("barrier", "fmt", "fmo"), LADDER_STUBS, r'''
fn c05_scalarmult() {
    let n: [u8; 32] = kani::any(); let p: [u8; 32] = kani::any();
    wit!(W_0, &n); wit!(W_1, &p);
    let mut q = [0u8; 32];
    crypto_scalarmult(&mut q, &n, &p);
    kani::cover!(true, "returned");
    unsafe {
        // the fixed-base routine computes X25519(n, 9); it may stand in for the ladder exactly when p encodes u = 9
        let base_route = LDS.n == 0 && LDS.bp_n == 1 && LDS.tm_n == 1;
        assert!((LDS.n == 1 && LDS.bp_n == 0) || base_route, "MULT_ONCE: exactly one scalar multiplication produces the result");
        if base_route {
            let mut is9 = p[0] == 9 && (p[31] & 0x7f) == 0;
            let mut i = 1; while i < 31 { if p[i] != 0 { is9 = false; } i += 1; }
            assert!(is9, "BASE_ROUTE_ONLY_FOR_BASEPOINT: the fixed-base routine replaces the ladder only when p encodes u = 9 (top bit ignored)");
            if LDS.bp_clamped_api {
                assert!(LDS.bp_scalar == clamp_spec(&n), "LADDER_SCALAR_IS_CLAMPED_N: the scalar is clamp(n)");
            } else {
                assert!(DKS.fmo_n == 1 && DKS.fmo_in[0] == clamp_spec(&n) && LDS.bp_scalar == DKS.fmo_out[0], "LADDER_SCALAR_IS_CLAMPED_N: the scalar is clamp(n) (reduced mod l, which the order-l base point permits)");
            }
            assert!(q == LDS.tm_out, "OUTPUT_IS_LADDER_RESULT: the library's result is returned unmodified");
        } else {
            assert!(LDS.scalar == clamp_spec(&n), "LADDER_SCALAR_IS_CLAMPED_N: the integer that reaches the ladder is clamp(n) itself, not a reduction of it mod the group order");
            let mut pm = p; pm[31] &= 0x7f;
            assert!(LDS.point == p || LDS.point == pm, "LADDER_POINT_IS_P: the point encoding is passed through unmodified (the ignored top bit may be cleared)");
            assert!(q == LDS.out, "OUTPUT_IS_LADDER_RESULT: the library's result is returned unmodified");
        }
    }
}
''')
H["c05_scalarmult_base"] = ("crypto_scalarmult_base", ("barrier", "fmt", "fmo"), LADDER_STUBS, r'''
fn c05_scalarmult_base() {
    let n: [u8; 32] = kani::any();
    wit!(W_0, &n);
    let mut q = [0u8; 32];
    crypto_scalarmult_base(&mut q, &n);
    kani::cover!(true, "returned");
    unsafe {
        assert!(LDS.bp_n == 1 && LDS.tm_n == 1, "BASE_MULT_ONCE: one fixed-base multiplication, converted to Montgomery form");
        if LDS.bp_clamped_api {
            assert!(LDS.bp_scalar == clamp_spec(&n), "BASE_SCALAR: the scalar is clamp(n)");
        } else {
            assert!(DKS.fmo_n == 1 && DKS.fmo_in[0] == clamp_spec(&n) && LDS.bp_scalar == DKS.fmo_out[0], "BASE_SCALAR: the scalar is clamp(n) (reduced mod l, which the order-l base point permits)");
        }
        assert!(q == LDS.tm_out, "OUTPUT_IS_LADDER_RESULT: the library's result is returned unmodified");
    }
}
''')

LOW_ORDER = ["00" * 32, "01" + "00" * 31, "e0eb7a7c3b41b8ae1656e3faf19fc46ada098deb9c32b1fd866205165f49b800", "5f9c95bca3508c24b1d0b1559c83ef5b04445cc4581c8e86d8224eddd09f1157",
             "ec" + "ff" * 30 + "7f", "ed" + "ff" * 30 + "7f", "ee" + "ff" * 30 + "7f"]
BODY += "pub const LOW_ORDER_U: [[u8; 32]; 7] = [%s];\n" % ", ".join("[" + ", ".join(str(b) for b in bytes.fromhex(h)) + "]" for h in LOW_ORDER)

KX = r'''
fn c05_kx_%(side)s() {
    let my_pk: [u8; 32] = kani::any(); let my_sk: [u8; 32] = kani::any(); let their_pk: [u8; 32] = kani::any();
    wit!(W_0, &my_pk); wit!(W_1, &my_sk); wit!(W_2, &their_pk);
    let mut rx = [0u8; 32]; let mut tx = [0u8; 32];
    let r = crypto_kx_%(side)s_session_keys(&mut rx, &mut tx, &my_pk, &my_sk, &their_pk);
    kani::cover!(r.is_ok(), "session keys derived");
    kani::cover!(r.is_err(), "refusal reachable");
    unsafe {
        if AES.sm_n == 0 {
            // refusing before the multiplication is right exactly for the encodings whose X25519 output is 0 for every scalar
            let mut m = their_pk; m[31] &= 0x7f;
            let mut low = false; let mut k = 0;
            while k < 7 { if m == LOW_ORDER_U[k] { low = true; } k += 1; }
            assert!(r.is_err() && low, "KX_DH: q = X25519(own secret key, peer public key) is computed unless the peer key is one of the low-order encodings (refused)");
            return;
        }
        assert!(AES.sm_n == 1 && AES.sm_scalar[0] == my_sk && AES.sm_point[0] == their_pk, "KX_DH: q = X25519(own secret key, peer public key)");
        let q = AES.sm_out[0];
        let mut zero = true; let mut i = 0; while i < 32 { if q[i] != 0 { zero = false; } i += 1; }
        if zero { assert!(r.is_err(), "KX_ZERO_SECRET_REFUSED: a peer key whose shared secret is all-zero is refused"); }
        if r.is_ok() {
            let (cpk, spk) = if %(is_client)s { (my_pk, their_pk) } else { (their_pk, my_pk) };
            assert!(B2S.b2_n == 1, "KX_HASH: one BLAKE2b compression (96 input bytes)");
            assert!(B2S.b2_hin[0] == b2_h0(64, 0, &[0u8; 16], &[0u8; 16]), "KX_HASH_PARAMS: unkeyed BLAKE2b with a 64-byte digest");
            assert!(B2S.b2_t[0][0] == 96 && B2S.b2_t[0][1] == 0 && B2S.b2_f[0][0] == u64::MAX && B2S.b2_f[0][1] == 0, "KX_HASH_PARAMS: 96 bytes, final block");
            i = 0;
            while i < 128 {
                let want = if i < 32 { q[i] } else if i < 64 { cpk[i - 32] } else if i < 96 { spk[i - 64] } else { 0 };
                assert!(B2S.b2_blk[0][i] == want, "KX_HASH_INPUT: the hash input is q || client_pk || server_pk");
                i += 1;
            }
            let keys = b2_out_bytes(&B2S.b2_hout[0]);
            i = 0;
            while i < 32 {
                if %(is_client)s {
                    assert!(rx[i] == keys[i] && tx[i] == keys[32 + i], "KX_SPLIT: client rx = first half, tx = second half");
                } else {
                    assert!(tx[i] == keys[i] && rx[i] == keys[32 + i], "KX_SPLIT: server tx = first half, rx = second half (the client's rx/tx mirrored)");
                }
                i += 1;
            }
        }
    }
}
'''


def suites(tier, seed):
    src = rs.prelude() + rs.load("aead.rs") + rs.load("dalek.rs") + BODY
    hs = []
    stubs = set()
    for name, (site, st, extra, body) in H.items():
        src += rs.hdr(st, extra=extra) + body
        stubs |= set(rs.stub_names(st, extra=extra))
        hs.append(Harness(name, unwind=40, timeout=900, site=site, desc="%s: all 2^256 scalars x all 2^256 point encodings (symbolic), dalek ladder stubbed: operands and result forwarding" % site,
                          bounds={"n": "symbolic 32B", "p": "symbolic 32B"}))
    for side, is_client in (("client", "true"), ("server", "false")):
        st = ("barrier", "fmt", "scalarmult", "b2compress")
        src += rs.hdr(st) + KX % dict(side=side, is_client=is_client)
        stubs |= set(rs.stub_names(st))
        hs.append(Harness("c05_kx_" + side, unwind=132, timeout=1800, site="crypto_kx_%s_session_keys" % side,
                          desc="key exchange (%s): DH operands, BLAKE2b-64 transcript over q || client_pk || server_pk, rx/tx split, all-zero shared secret refused; symbolic keys, arbitrary q" % side, bounds={}))
    return [Suite("C05", src, hs, stubs=sorted(stubs),
                  functions=["scalarmult_curve25519::{clamp,crypto_scalarmult_curve25519,crypto_scalarmult_curve25519_base}", "classic::crypto_core::{crypto_scalarmult,crypto_scalarmult_base}",
                             "classic::crypto_kx::{crypto_kx,crypto_kx_client_session_keys,crypto_kx_server_session_keys}"],
                  assumptions=ASSUMPTIONS)]


X25519_PY = r'''
P = 2**255 - 19
def x25519(k, u):
    k = bytearray(k); k[0] &= 248; k[31] &= 127; k[31] |= 64
    k = int.from_bytes(k, "little"); u = int.from_bytes(u, "little") & ((1 << 255) - 1)
    x1, x2, z2, x3, z3, swap = u, 1, 0, u, 1, 0
    for t in reversed(range(255)):
        kt = (k >> t) & 1
        swap ^= kt
        if swap: x2, x3, z2, z3 = x3, x2, z3, z2
        swap = kt
        A = (x2 + z2) % P; AA = A * A % P; B = (x2 - z2) % P; BB = B * B % P; E = (AA - BB) % P
        C = (x3 + z3) % P; D = (x3 - z3) % P; DA = D * A % P; CB = C * B % P
        x3 = (DA + CB) ** 2 % P; z3 = x1 * (DA - CB) ** 2 % P
        x2 = AA * BB % P; z2 = E * (AA + 121665 * E) % P
    if swap: x2, x3, z2, z3 = x3, x2, z3, z2
    return (x2 * pow(z2, P - 2, P) % P).to_bytes(32, "little")
'''


def replay(v, scratch):
    role = v["role"]
    w = v.get("witness", {})
    if role in ("LADDER_SCALAR_IS_CLAMPED_N", "LADDER_POINT_IS_P", "OUTPUT_IS_LADDER_RESULT", "MULT_ONCE", "BASE_ROUTE_ONLY_FOR_BASEPOINT"):
        ns = {}
        exec(X25519_PY, ns)
        n = bytes(((w.get("W_0") or []) + [0] * 32)[:32])
        if not any(n):
            n = bytes(range(1, 33))
        # the solver's point plus the table of points where reducing the scalar mod l shows: small order (u = 1, order-8 u),
        # and small twist / off-subgroup u-coordinates
        pts = [bytes(((w.get("W_1") or []) + [0] * 32)[:32]), (1).to_bytes(32, "little"),
               bytes.fromhex("e0eb7a7c3b41b8ae1656e3faf19fc46ada098deb9c32b1fd866205165f49b800"), (2).to_bytes(32, "little"), (3).to_bytes(32, "little"),
               (2**255 - 20).to_bytes(32, "little"), (9).to_bytes(32, "little")]
        want = [ns["x25519"](n, p) for p in pts]
        main = "use dryoc::classic::crypto_core::crypto_scalarmult;\nfn main() {\n    let n: [u8; 32] = %s;\n    let mut bad = false;\n" % runner.rust_bytes(list(n))
        for p, wv in zip(pts, want):
            main += "    { let p: [u8; 32] = %s; let want: [u8; 32] = %s; let mut q = [0u8; 32]; crypto_scalarmult(&mut q, &n, &p);\n" % (runner.rust_bytes(list(p)), runner.rust_bytes(list(wv)))
            main += "      if q != want { println!(\"MISMATCH X25519(n, u={:02x?}..) dryoc={:02x?} rfc7748={:02x?}\", &p[..4], &q[..8], &want[..8]); bad = true; } }\n"
        main += "    if bad { std::process::exit(1); }\n    println!(\"agree\");\n}\n"
        outs = runner.native_run(scratch, "c05", main)
        v["replay_input"] = {"n": list(n), "points": [list(p) for p in pts], "rfc7748": [list(x) for x in want], "program": main}
        return any(rc == 1 and "MISMATCH" in o for _, rc, o in outs), "; ".join("%s rc=%s %s" % (p, rc, o.strip()[-400:]) for p, rc, o in outs)
    if role in ("KX_ZERO_SECRET_REFUSED", "KX_DH"):
        # differential run against libsodium over the solver's peer key, the complete low-order table with and without the
        # ignored top bit, and honest keys: same accept / refuse decision and same session keys
        wpk = bytes(((w.get("W_2") or []) + [0] * 32)[:32])
        pts = [wpk] + [bytes.fromhex(h) for h in LOW_ORDER] + [bytes.fromhex(h)[:31] + bytes([bytes.fromhex(h)[31] | 0x80]) for h in LOW_ORDER]
        main = r'''
extern crate libsodium_sys;
use dryoc::classic::crypto_kx::*;
fn main() {
    let (cpk, csk) = crypto_kx_keypair();
    let (hpk, _hsk) = crypto_kx_keypair();
    let mut peers: Vec<[u8; 32]> = vec![PEERS];
    peers.push(hpk);
    let mut bad = false;
    for peer in peers.iter() {
        for server in [false, true] {
            let mut rx = [0u8; 32]; let mut tx = [0u8; 32]; let mut srx = [0u8; 32]; let mut stx = [0u8; 32];
            let r = if server { crypto_kx_server_session_keys(&mut rx, &mut tx, &cpk, &csk, peer) } else { crypto_kx_client_session_keys(&mut rx, &mut tx, &cpk, &csk, peer) };
            let rc = unsafe { if server { libsodium_sys::crypto_kx_server_session_keys(srx.as_mut_ptr(), stx.as_mut_ptr(), cpk.as_ptr(), csk.as_ptr(), peer.as_ptr()) }
                              else { libsodium_sys::crypto_kx_client_session_keys(srx.as_mut_ptr(), stx.as_mut_ptr(), cpk.as_ptr(), csk.as_ptr(), peer.as_ptr()) } };
            if r.is_ok() != (rc == 0) { println!("MISMATCH KX decision: peer {:02x?} server={} dryoc ok={} libsodium rc={}", peer, server, r.is_ok(), rc); bad = true; }
            else if rc == 0 && (rx != srx || tx != stx) { println!("MISMATCH KX session keys differ from libsodium for peer {:02x?} server={}", peer, server); bad = true; }
        }
    }
    if bad { std::process::exit(1); }
    println!("agree");
}
'''.replace("PEERS", ", ".join(runner.rust_bytes(list(x)) for x in pts))
        outs = runner.native_run(scratch, "c05", main, extra_deps='libsodium-sys = "0.2"\n')
        v["replay_input"] = {"program": main}
        return any(rc == 1 and "MISMATCH" in o for _, rc, o in outs), "; ".join("%s rc=%s %s" % (p, rc, o.strip()[-400:]) for p, rc, o in outs)
    return None, "no native replay template for role %s" % role
