"""Shared generator for the protected-memory properties C14, C15, C19.

Type-state makes every operation sequence a distinct typed program, so the
generator emits one Kani harness per (constructor, length, op sequence). The
libc boundary (sysconf, posix_memalign, free, mprotect, mlock, munlock, madvise)
is the ghost kernel of harness/ghost_libc.c with a 4-byte page; region contents
are symbolic; for C19 the index of the first refused mlock call is symbolic.
"""
import itertools
import os

from vlib.engine import Harness, Suite, VERIF
from vlib import rs

P = 4  # ghost page size
GHOST = os.path.join(VERIF, "harness", "ghost_libc.c")

BODY = r'''
use crate::protected::*;
use crate::types::*;

extern "C" {
    fn ghost_region_check(ptr: *const u8, len: usize, want_prot: i32, want_locked: i32) -> i32;
    fn ghost_final() -> i32;
    fn ghost_allocs() -> i32;
    fn ghost_set_mlock_fail_from(k: i32) -> i32;
    fn ghost_mlock_failed() -> i32;
    fn ghost_mlock_calls() -> i32;
}

fn pm_chk(p: *const u8, len: usize, prot: i32, locked: i32) {
    if len == 0 { return; }
    let r = unsafe { ghost_region_check(p, len, prot, locked) };
    assert!(r & 16 == 0, "PM_REGION: the data region lies inside a live, page-aligned guarded allocation");
    assert!(r & 1 == 0, "PM_RIGHTS: every page holding data has exactly the access rights the type advertises");
    assert!(r & 2 == 0, "PM_LOCK: data pages are locked in RAM exactly when the type says locked");
    assert!(r & 4 == 0, "PM_GUARD_FORE: the page just before the data is an inaccessible guard page");
    assert!(r & 8 == 0, "PM_GUARD_AFT: the last page of the block, beyond the data, is an inaccessible guard page");
}

extern "C" {
    fn ghost_block_size(i: i32) -> i64;
    fn ghost_block_prot(i: i32, page: i32) -> i32;
    fn ghost_block_offset(i: i32, p: *const u8) -> i64;
}

fn pm_final(check_wipe: bool, check_rest: bool) {
    let f = unsafe { ghost_final() };
    if check_rest {
        assert!(f & 1 == 0, "PM_END_FREED: every protected allocation is released after the last drop");
        assert!(f & 2 == 0, "PM_END_UNLOCKED: no page is still locked when its block is freed");
        assert!(f & 4 == 0, "PM_END_RIGHTS: no page has altered rights when its block is freed");
        assert!(f & 16 == 0, "PM_SYSCALL_ARGS: every mprotect/mlock call is page-aligned and inside its allocation");
        assert!(f & 32 == 0, "PM_DOUBLE_FREE: no block is freed twice");
    }
    if check_wipe {
        assert!(f & 8 == 0, "WIPE_BEFORE_FREE: every byte of a released allocation (incl. spare capacity) is zero when it reaches free()");
    }
}
'''

PROT = {"RW": 3, "RO": 1, "NA": 0}


class Prog:
    """Builds the Rust text of one typed operation sequence."""

    def __init__(self, name, mode, container, ln, native=False):
        self.name, self.mode, self.container, self.ln = name, mode, container, ln
        self.native = native
        self.lines = []
        self.pm, self.lm = None, None
        self.len = ln
        self.fallible = mode == "c19"
        self.ok = True
        self.nvar = 0
        # expected contents: list of rust expressions per byte
        self.exp = []

    def emit(self, s):
        self.lines.append("    " + s)

    def L(self, n):
        """length as it appears in the program: ghost pages are P bytes, native pages 4096"""
        return (n // P) * 4096 + (n % P) if self.native else n

    def asrt(self, cond, role, text):
        if self.native:
            self.emit("if !(%s) { mismatch(\"%s\", String::new()); }" % (cond, role))
        else:
            self.emit("assert!(%s, \"%s: %s\");" % (cond, role, text))

    def cover(self, cond, text):
        if not self.native:
            self.emit("kani::cover!(%s, \"%s\");" % (cond, text))

    def chk(self, var="x"):
        if self.len == 0:
            return
        if self.pm != "NA":
            self.emit("p = %s.as_slice().as_ptr();" % var)
            self.asrt("%s.as_slice().len() == %d" % (var, self.L(self.len)), "PM_LEN", "region length is what the operations say")
            if self.native:
                self.emit("{ let s = %s.as_slice(); let e = exp_%s(); if s != &e[..] { mismatch(\"PM_CONTENTS\", String::new()); } }" % (var, self.name) if False else "")
            else:
                for i, e in enumerate(self.exp[: self.len]):
                    self.asrt("%s.as_slice()[%d] == %s" % (var, i, e), "PM_CONTENTS", "contents are unchanged by transitions")
        if self.mode != "c15":
            self.emit("pm_chk(p, %d, %d, %d);" % (self.L(self.len), PROT[self.pm], 1 if self.lm == "L" else 0))

    def result(self, expr, newvar="x"):
        """bind a Result-returning expression; in c19 mode an Err ends the program."""
        if self.fallible and self.native:
            self.emit("let %s = match %s { Ok(v) => v, Err(_) => { if unsafe { ghost_mlock_failed() } != 1 { mismatch(\"LOCK_ERR_ONLY_WHEN_REFUSED\", String::new()); } pm_final(true, true); return; } };" % (newvar, expr))
        elif self.fallible:
            # the error value is forgotten, not dropped: io::Error's bit-packed drop glue (tagged pointer decode + dyn
            # Error vtable) is std's, irrelevant to the property, and exhausts memory under CBMC
            self.emit("let %s = match %s { Ok(v) => v, Err(e) => { core::mem::forget(e); assert!(unsafe { ghost_mlock_failed() } == 1, \"LOCK_ERR_ONLY_WHEN_REFUSED: Err is returned only when the OS refused a lock\"); pm_final(true, true); kani::cover!(true, \"error path reached\"); return; } };" % (newvar, expr))
        else:
            self.emit("let %s = %s.unwrap();" % (newvar, expr))


def ctor(pr, kind):
    ln = pr.L(pr.ln)
    if pr.native:
        pr.emit("let src: [u8; %d] = wsrc::<%d>();" % (ln, ln))
    else:
        pr.emit("let src: [u8; %d] = kani::any();" % ln)
        pr.emit("wit!(W_0, &src);")
    pr.emit("let mut p: *const u8 = core::ptr::null();")
    pr.exp = ["src[%d]" % i for i in range(pr.ln)]
    if kind == "hb_locked":
        pr.result("HeapBytes::from_slice_into_locked(&src)")
        pr.pm, pr.lm = "RW", "L"
    elif kind == "hb_rolocked":
        pr.result("HeapBytes::from_slice_into_readonly_locked(&src)")
        pr.pm, pr.lm = "RO", "L"
    elif kind == "hba_stack_mlock":
        pr.result("StackByteArray::<%d>::from(src).mlock()" % ln)
        pr.pm, pr.lm = "RW", "L"
    elif kind == "hba_stack_ro":
        pr.result("StackByteArray::<%d>::from(src).mprotect_readonly()" % ln)
        pr.pm, pr.lm = "RO", "U"
    elif kind == "hba_locked":
        pr.result("HeapByteArray::<%d>::from_slice_into_locked(&src)" % ln)
        pr.pm, pr.lm = "RW", "L"
    elif kind == "hba_rolocked":
        pr.result("HeapByteArray::<%d>::from_slice_into_readonly_locked(&src)" % ln)
        pr.pm, pr.lm = "RO", "L"
    elif kind == "hba_new_locked":
        pr.result("HeapByteArray::<%d>::new_locked()" % ln)
        pr.exp = ["0u8"] * pr.ln
        pr.pm, pr.lm = "RW", "L"
    else:
        raise ValueError(kind)
    pr.chk()


def ops_for(pr):
    o = []
    if pr.lm == "U":
        o.append("mlock")
    o.append("munlock")
    o += ["ro", "rw"]
    if pr.lm == "U":
        o.append("na")
    heapbytes = pr.container == "hb"
    if pr.pm in ("RW", "RO") and pr.mode != "c19":
        if heapbytes or pr.lm == "U":
            o.append("clone")
    if pr.pm == "RW" and heapbytes and pr.mode != "c19":
        o += ["grow", "shrink"]
    if pr.pm == "RW" and pr.mode == "c15":
        o.append("write")
    return o


def apply(pr, op):
    if op == "mlock":
        pr.result("x.mlock()")
        pr.lm = "L"
    elif op == "munlock":
        pr.result("x.munlock()")
        pr.lm = "U"
    elif op == "ro":
        pr.result("x.mprotect_readonly()")
        pr.pm = "RO"
    elif op == "rw":
        pr.result("x.mprotect_readwrite()")
        pr.pm = "RW"
    elif op == "na":
        pr.result("x.mprotect_noaccess()")
        pr.pm = "NA"
    elif op == "clone":
        pr.emit("let y = x.clone();")
        pr.chk("y")
        pr.emit("drop(y);")
    elif op == "grow":
        new = pr.len + P + 1
        pr.emit("let mut x = x;")
        pr.emit("x.resize(%d, 0xa5);" % pr.L(new))
        pr.exp = pr.exp[: pr.len] + ["0xa5u8"] * (new - pr.len)
        pr.len = new
    elif op == "shrink":
        new = 1 if pr.len > 1 else 0
        pr.emit("let mut x = x;")
        pr.emit("x.resize(%d, 0);" % pr.L(new))
        pr.len = new
        pr.exp = pr.exp[:new]
    elif op == "write":
        pr.emit("let mut x = x;")
        pr.emit("let v: u8 = 0x5a;" if pr.native else "let v: u8 = kani::any(); kani::assume(v != 0);")
        pr.emit("{ let s = x.as_mut_slice(); let mut i = 0; while i < s.len() { s[i] = v; i += 1; } }")
        pr.exp = ["v"] * pr.len
    else:
        raise ValueError(op)
    pr.chk()


CTORS = {
    "hb": ["hb_locked", "hb_rolocked"],
    "hba": ["hba_stack_mlock", "hba_stack_ro", "hba_locked", "hba_rolocked", "hba_new_locked"],
}


def gen_program(mode, container, ckind, ln, seq, stubs, native=False, k=None):
    name = "%s_%s_l%d_%s" % (mode, ckind, ln, "_".join(seq) if seq else "drop")
    if mode == "c19":
        name += "_k%d" % k
    pr = Prog(name, mode, container, ln, native=native)
    if mode == "c19" and not native:
        # literal fault index: with a symbolic k the io::Error paths exhaust memory (DESIGN.md C19)
        pr.emit("let k: i32 = %d;" % k)
        pr.emit("unsafe { ghost_set_mlock_fail_from(k); }")
        pr.emit("wit!(W_1, &[k as u8]);")
    ctor(pr, ckind)
    for op in seq:
        if op not in ops_for(pr):
            return None
        apply(pr, op)
    pr.emit("drop(x);")
    if mode == "c19":
        # either the fault was injected (Err path covered above) or the program ended before the k-th lock request
        pass  # k < number of lock requests, so the Err path (covered there) is always taken
    else:
        pr.cover("true", "sequence reached the end")
    pr.emit("pm_final(%s, %s);" % ("true" if mode in ("c15", "c19") else "false", "true" if mode in ("c14", "c19") else "false"))
    text = ("" if native else rs.hdr(stubs)) + "fn %s() {\n%s\n}\n" % (name, "\n".join(pr.lines))
    return name, text


def sequences(mode, container, ckind, ln, depth):
    """all op sequences of length <= depth valid from the constructor's state"""
    out = []

    def rec(pm, lm, curlen, seq):
        out.append(list(seq))
        if len(seq) >= depth:
            return
        pr = Prog("x", mode, container, curlen)
        pr.pm, pr.lm, pr.len = pm, lm, curlen
        for op in ops_for(pr):
            npm, nlm, nlen = pm, lm, curlen
            if op == "mlock":
                nlm = "L"
            elif op == "munlock":
                nlm = "U"
            elif op == "ro":
                npm = "RO"
            elif op == "rw":
                npm = "RW"
            elif op == "na":
                npm = "NA"
            elif op == "grow":
                nlen = curlen + P + 1
            elif op == "shrink":
                nlen = 1 if curlen > 1 else 0
            if nlen > 2 * P + 1 + P + 1:
                continue
            # skip identity transitions beyond the first (rw on RW etc.) to keep the set small
            rec(npm, nlm, nlen, seq + [op])

    start = {"hb_locked": ("RW", "L"), "hb_rolocked": ("RO", "L"), "hba_stack_mlock": ("RW", "L"),
             "hba_stack_ro": ("RO", "U"), "hba_locked": ("RW", "L"), "hba_rolocked": ("RO", "L"),
             "hba_new_locked": ("RW", "L")}[ckind]
    rec(start[0], start[1], ln, [])
    return out


STUBS = ("barrier", "fmt")


def klist(ck, seq):
    """fault indices worth instantiating: one per real mlock request the fault-free run makes"""
    n = 1 if ck not in ("hba_stack_ro",) else 0     # every constructor but the read-only stack one locks once
    n += sum(1 for op in seq if op == "mlock")
    return list(range(n))   # programs that never request a lock have no fault point


def allocator_harness(name, size):
    """PageAlignedAllocator::allocate for every layout size 1..=3*P: block geometry and guard placement."""
    return rs.hdr(STUBS) + r'''
fn %(name)s() {
    use std::alloc::{Allocator, Layout};
    let size: usize = %(size)d;
    wit!(W_0, &[size as u8]);
    let a = PageAlignedAllocator;
    let layout = Layout::from_size_align(size, 1).unwrap();
    let r = a.allocate(layout);
    assert!(r.is_ok(), "ALLOC_OK: allocation succeeds when posix_memalign does");
    let nn = r.unwrap();
    let p = nn.as_ptr() as *const u8;
    let bs = unsafe { ghost_block_size(0) } as usize;
    let off = unsafe { ghost_block_offset(0, p) };
    kani::cover!(true, "allocation returned");
    assert!(nn.len() == size, "ALLOC_LEN: the returned slice has the requested length");
    assert!(off == %(P)d, "ALLOC_DATA_OFFSET: data starts exactly one page into the block");
    assert!(bs %% %(P)d == 0, "ALLOC_WHOLE_PAGES: block is a whole number of pages");
    let np = bs / %(P)d;
    let data_pages = (size + %(P)d - 1) / %(P)d;
    assert!(np >= data_pages + 2 && np <= data_pages + 3, "ALLOC_GUARD_DISTANCE: the aft guard page is no more than one page beyond the end of the allocation");
    assert!(unsafe { ghost_block_prot(0, 0) } == 0, "PM_GUARD_FORE: first page of the block is PROT_NONE");
    assert!(unsafe { ghost_block_prot(0, (np - 1) as i32) } == 0, "PM_GUARD_AFT: last page of the block is PROT_NONE");
    let mut i = 1;
    while i <= data_pages { assert!(unsafe { ghost_block_prot(0, i as i32) } == 3, "ALLOC_DATA_RW: data pages start read-write"); i += 1; }
    unsafe { a.deallocate(core::ptr::NonNull::new_unchecked(p as *mut u8), layout); }
    let f = unsafe { ghost_final() };
    assert!(f & 1 == 0, "PM_END_FREED: deallocate frees the block");
    assert!(f & 4 == 0, "PM_END_RIGHTS: guard pages are made read-write again before free");
    assert!(f & 16 == 0, "PM_SYSCALL_ARGS: every mprotect call is page-aligned and inside the block");
}
''' % dict(name=name, P=P, size=size)


def build_suite(prop, mode, tier, seed, lens_quick, lens_thorough, depth_quick, depth_thorough, select=None):
    import random
    rnd = random.Random(seed)
    lens = lens_quick if tier == "quick" else lens_thorough
    depth = depth_quick if tier == "quick" else depth_thorough
    src = rs.prelude() + BODY
    hs = []
    seen = set()
    for container, kinds in CTORS.items():
        for ck in kinds:
            for ln in lens:
                for seq in sequences(mode, container, ck, ln, depth):
                    if select and not select(container, ck, ln, seq, tier, rnd):
                        continue
                    for k in (klist(ck, seq) if mode == "c19" else [None]):
                        g = gen_program(mode, container, ck, ln, seq, STUBS, k=k)
                        if not g or g[0] in seen:
                            continue
                        seen.add(g[0])
                        src += g[1]
                        hs.append(Harness(g[0], unwind=44, timeout=900, mem_gb=10, 
                                          site="%s:%s" % (ck, "+".join(seq) if seq else "drop"),
                                          desc="%s len=%d ops=[%s] then drop; ghost kernel page=%d; contents symbolic%s" % (
                                              ck, ln, ",".join(seq), P, "" if k is None else "; mlock refused from call #%d on" % k),
                                          bounds={"len": ln, "page": P, "ops": seq, "ctor": ck, "mlock_fail_from": k}))
    return src, hs
