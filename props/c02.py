"""C02 - any tampering with an authenticated ciphertext is rejected (decided in the ideal-MAC model).

"Every bit flip is rejected" is not a first-order truth of the code (Poly1305 with r = 0
accepts everything); what the solver decides is the code-level fact it reduces to:
  VERDICT      Ok  <=>  all 16 presented tag bytes equal the MAC output (MAC output symbolic),
  MAC_INPUT    the MAC is computed over exactly the received ciphertext bytes (so truncation,
               extension and any byte change alter the MAC input) - stream: C03's transcript,
  MAC_KEY      the one-time MAC key is keystream block 0 of the cipher keyed with exactly
               (key, nonce): literal (key, nonce) instances vs the harness's XSalsa20,
  BOX_KEY      box forms derive the key from exactly (pk, sk) via X25519 + HSalsa20(q, 0),
  SEAL         the sealed-box nonce is derived from exactly (epk, recipient pk) and the DH
               uses epk - so every bit of the ephemeral key reaches nonce or key.
With 'Poly1305 is a secure one-time MAC and XSalsa20/XChaCha20 are PRFs' this gives the property."""
import random

from vlib.engine import Harness, Suite
from vlib import rs, runner
from props import aead

ASSUMPTIONS = [
    "Poly1305 is a secure one-time MAC; XSalsa20 / XChaCha20 are PRFs; X25519 + HSalsa20 and BLAKE2b as used are collision resistant (standard assumptions)",
    "the literal statement 'every single-bit change is rejected' is false for the real Poly1305 at r = 0 (2^-106 of keys) and is therefore phrased over an ideal MAC",
]
OUTSIDE = ["message lengths beyond the listed literals", "keystream-value facts at keys other than the literal instances"]


def harness_a(site, name):
    n = site["ctlen"]
    extra = ""
    if site.get("dh"):
        extra += r'''
    unsafe { assert!(AES.sm_n == 1 && AES.sm_scalar[0] == sk, "BOX_KEY_INPUTS: the shared key is derived with the recipient's secret key"); }'''
        if site.get("seal"):
            extra += r'''
    unsafe {
        let mut i = 0; while i < 32 { assert!(AES.sm_point[0][i] == sealed[i], "SEAL_DH_USES_EPK: the DH uses the ephemeral public key found in the sealed box"); i += 1; }
        i = 0; while i < 32 { assert!(AES.sn_epk[i] == sealed[i], "SEAL_NONCE_INPUTS: the nonce is derived from the ephemeral public key in the box"); i += 1; }
        assert!(AES.sn_n == 1 && AES.sn_rpk == pk, "SEAL_NONCE_INPUTS: ... and from the recipient's public key");
    }'''
        else:
            extra += r'''
    unsafe { assert!(AES.sm_point[0] == pk, "BOX_KEY_INPUTS: ... and the sender's public key"); }'''
    if site.get("stream"):
        mac_in = "// stream MAC transcript: see C03 (c03_pull_anystate_*)"
    else:
        mac_in = r'''unsafe {
        assert!(AES.mac_new_n == 1 && AES.mac_len[0] == %(n)d, "MAC_INPUT: the MAC covers exactly the received ciphertext (nothing more, nothing less)");
        let body: &[u8] = &%(ct)s;
        let mut i = 0; while i < %(n)d { assert!(AES.mac_stream[0][i] == body[i], "MAC_INPUT: every received ciphertext byte is authenticated, in order"); i += 1; }
    }''' % dict(n=n, ct=site["ctexpr"])
    return rs.hdr(("barrier", "fmt") + tuple(site["stubs"])) + r'''
fn %(name)s() {
%(decls)s
    let macout: [u8; 16] = kani::any();
    unsafe { AES.mac_out[0] = macout; }
    let mut same = true;
    {
        let presented: &[u8] = &%(tagexpr)s;
        let mut i = 0;
        while i < 16 { if presented[i] != macout[i] { same = false; } i += 1; }
    }
    %(init)s
    let r = %(call)s;
    kani::cover!(r.is_ok(), "accepting path reachable (untampered input is accepted)");
    kani::cover!(r.is_err(), "rejecting path reachable");
    assert!(r.is_ok() == same, "VERDICT: Ok exactly when all 16 presented tag bytes equal the MAC (a skipped byte or an early Ok is a counterexample)");
    %(mac_in)s%(extra)s
}
''' % dict(name=name, decls=aead.decls_symbolic(site), tagexpr=site["tagexpr"], init=site["init"], call=site["call"], mac_in=mac_in, extra=extra)


def lit(b):
    return "[" + ", ".join(str(x) for x in b) + "]"


def harness_b_secretbox(name, key, nonce, n):
    return rs.hdr(("barrier", "fmt") + rs.MAC) + r'''
fn %(name)s() {
    let key: [u8; 32] = %(k)s; let nonce: [u8; 24] = %(n)s;
    let c: [u8; %(len)d] = kani::any(); let tag: [u8; 16] = kani::any();
    wit!(W_2, &c);
    unsafe { AES.mac_out[0] = tag; }     // authentic: the message is accepted
    let mut out = [0u8; %(len)d];
    let r = crypto_secretbox_open_detached(&mut out, &tag, &c, &nonce, &key);
    kani::cover!(r.is_ok(), "accepted");
    assert!(r.is_ok(), "VERDICT: the untampered input is accepted");
    let ks0 = xsalsa20_block_spec(&key, &nonce, 0); let ks1 = xsalsa20_block_spec(&key, &nonce, 1);
    unsafe { let mut i = 0; while i < 32 { assert!(AES.mac_key[0][i] == ks0[i], "MAC_KEY: the one-time MAC key is XSalsa20(key, nonce) keystream bytes 0..32"); i += 1; } }
    let mut i = 0;
    while i < %(len)d {
        let ks = if i < 32 { ks0[32 + i] } else { ks1[i - 32] };
        assert!(out[i] == (c[i] ^ ks), "PLAINTEXT: m[i] = c[i] xor keystream byte 32 + i");
        i += 1;
    }
}
''' % dict(name=name, k=lit(key), n=lit(nonce), len=n)


def harness_b_box(name, pk, sk, q, nonce):
    return rs.hdr(("barrier", "fmt") + rs.MAC + ("scalarmult",)) + r'''
fn %(name)s() {
    let pk: [u8; 32] = %(pk)s; let sk: [u8; 32] = %(sk)s; let nonce: [u8; 24] = %(n)s;
    let q: [u8; 32] = %(q)s;
    unsafe { AES.sm_fixed = true; AES.sm_fixed_out = q; }     // the X25519 stub returns this literal shared secret
    let c: [u8; 5] = kani::any(); let tag: [u8; 16] = kani::any();
    unsafe { AES.mac_out[0] = tag; }
    let mut out = [0u8; 5];
    let r = crypto_box_open_detached(&mut out, &tag, &c, &nonce, &pk, &sk);
    kani::cover!(r.is_ok(), "accepted");
    assert!(r.is_ok(), "VERDICT: the untampered input is accepted");
    unsafe { assert!(AES.sm_n == 1 && AES.sm_scalar[0] == sk && AES.sm_point[0] == pk, "BOX_KEY_INPUTS: X25519(sk, pk)"); }
    let bk = hsalsa20_spec(&q, &[0u8; 16]);
    let ks0 = xsalsa20_block_spec(&bk, &nonce, 0);
    unsafe { let mut i = 0; while i < 32 { assert!(AES.mac_key[0][i] == ks0[i], "BOX_KEY: the box key is HSalsa20(X25519(sk, pk), 0^16) and the MAC key its XSalsa20 keystream bytes 0..32"); i += 1; } }
    let k2 = crypto_box_beforenm(&pk, &sk);
    assert!(k2 == bk, "BOX_KEY: crypto_box_beforenm returns the same key");
}
''' % dict(name=name, pk=lit(pk), sk=lit(sk), q=lit(q), n=lit(nonce))


def stream_suite(tier):
    """secretstream pull from an arbitrary state: verdict and the full MAC transcript (associated data with its padding,
    tag block, ciphertext, lengths) - C03's pull harness, instantiated here for AD lengths across the 16-byte padding
    boundary, because "tampering with the associated data is rejected" is a C02 statement"""
    from props import c03
    src = rs.prelude() + rs.load("aead.rs") + rs.load("rng.rs") + c03.BODY
    hs = []
    for mlen, adlen in ([(3, 21)] if tier == "quick" else [(3, 21), (0, 16), (17, 33), (1, 15)]):
        n = "c02_stream_pull_transcript_m%d_ad%d" % (mlen, adlen)
        src += c03.h_pull_a(n, mlen, adlen)
        hs.append(Harness(n, unwind=max(70, mlen + 20), timeout=2400, site="secretstream_pull:transcript",
                          desc="pull from an arbitrary 44-byte state, message %d bytes, AD %d bytes: verdict, MAC transcript (AD || pad || tag block || ciphertext || pad || lengths), post-state" % (mlen, adlen),
                          bounds={"mlen": mlen, "adlen": adlen}))
    s = Suite("C02", src, hs, stubs=rs.stub_names(("barrier", "fmt") + rs.MAC, extra=c03.REKEY_STUB),
              functions=["classic::crypto_secretstream_xchacha20poly1305::{pull,rekey}", "utils::pad16"], assumptions=ASSUMPTIONS)
    s.tag = "e1-stream"
    return s


def suites(tier, seed):
    rnd = random.Random(2000 + seed)
    src = rs.prelude() + rs.load("aead.rs") + rs.load("salsa.rs") + aead.USES
    hs = []
    stubs = set()
    lens = [0, 17] if tier == "quick" else [0, 1, 15, 16, 17, 33, 64, 65]
    for n in lens:
        for site in aead.sites(n, adlen=(5 if n == 17 else 0)):
            name = "c02_%s_n%d" % (site["name"], n)
            src += harness_a(site, name)
            stubs |= set(rs.stub_names(("barrier", "fmt") + tuple(site["stubs"])))
            hs.append(Harness(name, unwind=max(70, n + 60), timeout=1800, site=site["name"],
                              desc="%s, message length %d: symbolic key/nonce/ciphertext/tag and MAC output; verdict <=> tag == MAC, MAC input == received ciphertext, key-derivation inputs" % (site["name"], n),
                              bounds={"message_len": n}))
    K = 1 if tier == "quick" else 3
    for i in range(K):
        key = [rnd.randrange(256) for _ in range(32)]
        nonce = [rnd.randrange(256) for _ in range(24)]
        for n in ([5, 40] if tier == "quick" else [0, 5, 33, 40]):
            name = "c02_secretbox_literal_k%d_n%d" % (i, n)
            src += harness_b_secretbox(name, key, nonce, n)
            hs.append(Harness(name, unwind=max(70, n + 60), timeout=1800, site="secretbox(literal key)",
                              desc="literal (key, nonce): MAC key and plaintext bytes vs the harness's XSalsa20; symbolic %d-byte ciphertext" % n, bounds={"message_len": n, "key": "literal (seeded)"}))
        pk = [rnd.randrange(256) for _ in range(32)]; sk = [rnd.randrange(256) for _ in range(32)]; q = [rnd.randrange(256) for _ in range(32)]
        name = "c02_box_literal_k%d" % i
        src += harness_b_box(name, pk, sk, q, nonce)
        hs.append(Harness(name, unwind=70, timeout=1800, site="box(literal keys)", desc="box key = HSalsa20(X25519(sk, pk), 0) at a literal shared secret", bounds={"key": "literal (seeded)"}))
    # the sealed-box nonce must bind every bit of the ephemeral key (the open-side harnesses stub this derivation)
    from props import c01
    src += rs.hdr(("barrier", "fmt", "b2compress")) + c01.H_SEAL_NONCE.replace("fn c01_seal_nonce", "fn c02_seal_nonce_binds_epk")
    stubs |= set(rs.stub_names(("barrier", "fmt", "b2compress")))
    hs.append(Harness("c02_seal_nonce_binds_epk", unwind=132, timeout=1800, site="crypto_box_seal_nonce",
                      desc="sealed-box nonce = BLAKE2b-24 over all 256 bits of epk and of the recipient key (a change to any bit of the ephemeral key changes the hash input)", bounds={}))
    return [stream_suite(tier), Suite("C02", src, hs, stubs=sorted(stubs),
                  functions=["classic::crypto_secretbox_impl::crypto_secretbox_open_detached_inplace", "classic::crypto_secretbox::open_*", "classic::crypto_box::{open_*,seal_open,beforenm}",
                             "classic::crypto_box_impl::crypto_box_curve25519xsalsa20poly1305_beforenm", "classic::crypto_core::crypto_core_hsalsa20",
                             "classic::crypto_secretstream_xchacha20poly1305::pull"],
                  assumptions=ASSUMPTIONS)]


def replay(v, scratch):
    """every C02 counterexample is confirmed by the tamper battery replay/c02_battery.rs: libsodium-made secretbox / box /
    sealed-box / secretstream ciphertexts, every single-bit flip (tag, body, ephemeral key, associated data), truncations"""
    import os
    from vlib.engine import VERIF
    main = open(os.path.join(VERIF, "replay", "c02_battery.rs")).read()
    outs = runner.native_run(scratch, "c02", main, extra_deps='libsodium-sys = "0.2"\n', profiles=("release",), timeout=1800)
    v["replay_input"] = {"program": "replay/c02_battery.rs"}
    repro = any(rc == 1 and "MISMATCH" in o for _, rc, o in outs)
    return repro, "; ".join("%s rc=%s %s" % (p_, rc, o.strip()[-600:]) for p_, rc, o in outs)
