"""C14 - protected memory: page rights, locks and guard pages match the type state.
Decided against the ghost kernel (harness/ghost_libc.c, POSIX semantics, 4-byte page)
by Kani/CBMC over the real src/protected.rs: one harness per typed operation sequence."""
from vlib.engine import Harness, Suite
from vlib import rs, runner
from props import pmem

ASSUMPTIONS = [
    "Linux implements the POSIX contract as modelled by harness/ghost_libc.c (mprotect: page-aligned addr, len rounded up to whole pages, len 0 no-op; mlock/munlock page-rounded; "
    "mlock over a PROT_NONE page returns ENOMEM yet leaves the range marked locked - observed natively through VmLck)",
    "page size 4 stands for the real page size: the code is parametric in sysconf(_SC_PAGE_SIZE) (not proved parametric)",
    "a page with PROT_READ/PROT_NONE faults on write/any access (the kernel's job, not dryoc's)",
]
OUTSIDE = ["page sizes other than the ghost's", "Windows code paths", "operation sequences longer than the stated depth",
           "region lengths other than the listed literals"]


def select(container, ck, ln, seq, tier, rnd):
    if tier == "quick" and list(seq[-2:]) == ["na", "mlock"] and ln == 5:
        return True     # locking a no-access region (the Linux mlock-on-PROT_NONE defect, fix b721c99)
    if tier == "quick":
        # page+1 (the boundary the len-1 defect lived on): all depth<=2 sequences for the two main constructors,
        # depth<=1 for the rest; 1-byte regions: depth<=1 for the main constructors only
        if ln == 5:
            return True if ck in ("hb_locked", "hba_stack_mlock") else len(seq) <= 1
        return ck in ("hb_locked", "hba_stack_mlock", "hba_stack_ro") and len(seq) <= 1
    # thorough: every depth<=2 sequence for every constructor and length; depth 3 at the page+1 length (5) for all
    # constructors and at the 1-byte / two-page+1 lengths for the two main ones (the full depth-3 product is 5320 programs, ~4 h)
    if len(seq) <= 2:
        return True
    if ln == 5:
        return True
    return ln in (1, 9) and ck in ("hb_locked", "hba_stack_mlock")


def suites(tier, seed):
    src, hs = pmem.build_suite("C14", "c14", tier, seed, lens_quick=[1, 5], lens_thorough=[1, 3, 4, 5, 8, 9],
                               depth_quick=2, depth_thorough=3, select=select)
    for size in ([1, 3, 4, 5, 8, 9] if tier == "quick" else range(1, 3 * pmem.P + 2)):
        n = "c14_allocator_layout_%d" % size
        src += pmem.allocator_harness(n, size)
        hs.append(Harness(n, unwind=28, timeout=900, site="PageAlignedAllocator::allocate",
                          desc="layout size %d: block geometry, guard pages at both ends, aft guard at most one page beyond the allocation, deallocate restores rights" % size,
                          bounds={"size": size, "page": pmem.P}))
    s = Suite("C14", src, hs, features=["nightly"], clibs=[pmem.GHOST], stubs=rs.stub_names(pmem.STUBS) + ["libc::{sysconf,posix_memalign,free,mprotect,mlock,munlock,madvise,__errno_location} -> ghost kernel"],
              functions=["protected::{dryoc_mlock,dryoc_munlock,dryoc_mprotect_readonly,dryoc_mprotect_readwrite,dryoc_mprotect_noaccess}",
                         "protected::PageAlignedAllocator::{allocate,deallocate}", "protected::Protected::{mlock,munlock,mprotect_*,clone,resize,drop,zeroize}",
                         "protected::{HeapBytes,HeapByteArray} constructors (from_slice_into_locked, new_locked, StackByteArray::mlock, ...)"],
              assumptions=ASSUMPTIONS)
    return [s]


def replay(v, scratch):
    return pmem_replay(v, scratch)


from props.pmem_replay import pmem_replay  # noqa: E402
