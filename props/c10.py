"""C10 - password-hash strings (PARTIAL: the string encoder / parser themselves are out of reach).

`format!` with integer Display and the run-time-built base64 engine do not finish symbolic execution even on fully
literal inputs (25 min / 20 GB, see DESIGN.md 9.6), so the text layer is NOT decided. What is decided, with the parser
replaced by a contract stub returning an arbitrary parsed record (all fields present, as the real parser guarantees):
  * needs-rehash answers false exactly when both cost parameters match (symbolic costs on both sides);
  * string verification runs Argon2 with exactly the parsed (t, m, p, salt, algorithm), asks for as many bytes as the
    decoded hash holds, and accepts exactly when the result equals the decoded hash over its whole length."""
from vlib.engine import Harness, Suite
from vlib import rs, runner

ASSUMPTIONS = ["Pwhash::parse_encoded_pwhash is replaced by a stub returning an arbitrary record with every field present (its postcondition); the text <-> record mapping is NOT checked",
               "Argon2 is a contract stub (C09)"]
OUTSIDE = ["the string encoder (pwhash_to_string / PwHash::to_string) and the parser (parse_encoded_pwhash / PwHash::from_string): text layer not encodable within reach",
           "by reading only: PwHash::to_string ignores config.algorithm and always writes $argon2id$"]

BODY = r'''
use crate::classic::crypto_pwhash::*;
pub struct PpState { pub magic: u64, pub t: u32, pub m: u32, pub p: u32, pub alg: u8, pub saltlen: usize, pub hashlen: usize, pub salt: [u8; 32], pub hash: [u8; 64] }
pub static mut PPS: PpState = PpState { magic: 0x5050000F53EDC0DE, t: 0, m: 0, p: 0, alg: 0, saltlen: 0, hashlen: 0, salt: [0; 32], hash: [0; 64] };
fn parse_stub(_s: &str) -> Result<Pwhash, crate::error::Error> {
    unsafe {
        let t: u32 = kani::any(); let m: u32 = kani::any();
        let alg_i: bool = kani::any();
        let salt: [u8; 32] = kani::any(); let hash: [u8; 64] = kani::any();
        PPS.t = t; PPS.m = m; PPS.p = 1; PPS.alg = if alg_i { 1 } else { 2 }; PPS.salt = salt; PPS.hash = hash;
        Ok(Pwhash {
            pwhash: Some(hash[..PPS.hashlen].to_vec()), salt: Some(salt[..PPS.saltlen].to_vec()),
            type_: Some(if alg_i { PasswordHashAlgorithm::Argon2i13 } else { PasswordHashAlgorithm::Argon2id13 }),
            t_cost: Some(t), m_cost: Some(m), parallelism: Some(1), version: Some(0x13),
        })
    }
}
'''
PARSE_STUB = [("crate::classic::crypto_pwhash::Pwhash::parse_encoded_pwhash", "parse_stub")]
A2_STUB = [("crate::argon2::argon2_hash", "argon2_stub")]

H_REHASH = r'''
fn c10_needs_rehash() {
    let ops: u64 = kani::any(); let mem: usize = kani::any();
    unsafe { PPS.saltlen = 16; PPS.hashlen = 32; }
    unsafe { wit!(W_0, &ops.to_le_bytes()); wit!(W_3, &(mem as u64).to_le_bytes()); }   // before the call: a panic inside it must not lose the limits
    let r = crypto_pwhash_str_needs_rehash("x", ops, mem);
    unsafe { wit!(W_1, &PPS.t.to_le_bytes()); wit!(W_2, &PPS.m.to_le_bytes()); }
    kani::cover!(r.is_ok(), "answered");
    assert!(r.is_ok(), "REHASH_OK: a parseable string gets an answer");
    unsafe {
        let same = PPS.t == ops as u32 && PPS.m == (mem / 1024) as u32;
        kani::cover!(same, "matching costs reachable");
        assert!(r.unwrap() == !same, "REHASH_IFF_COSTS_DIFFER: needs-rehash is false exactly when both cost parameters match");
    }
}
'''


def h_verify(name, hashlen, saltlen):
    return rs.hdr(("barrier", "fmt"), extra=PARSE_STUB + A2_STUB) + r'''
fn %(name)s() {
    let pw: [u8; 5] = kani::any();
    wit!(W_0, &pw);
    unsafe { PPS.saltlen = %(sl)d; PPS.hashlen = %(hl)d; }
    let r = crypto_pwhash_str_verify("x", &pw);
    kani::cover!(r.is_ok(), "accept reachable");
    kani::cover!(r.is_err(), "reject reachable");
    unsafe {
        assert!(A2S.n == 1 && A2S.t == PPS.t && A2S.m == PPS.m && A2S.p == 1 && A2S.ty == PPS.alg, "STRVERIFY_ARGS: Argon2 runs with the parsed costs, parallelism and algorithm");
        assert!(A2S.saltlen == %(sl)d && A2S.pwlen == 5, "STRVERIFY_ARGS: ... the decoded salt and the presented password");
        let mut i = 0; while i < %(sl)d { assert!(A2S.salt[i] == PPS.salt[i], "STRVERIFY_ARGS: ... the decoded salt"); i += 1; }
        assert!(A2S.outlen == %(hl)d, "STRVERIFY_HASH_LENGTH: the recomputed hash has the decoded hash's length");
        let mut same = true; i = 0; while i < %(hl)d { if A2S.out[i] != PPS.hash[i] { same = false; } i += 1; }
        assert!(r.is_ok() == same, "STRVERIFY_VERDICT: accepted exactly when the recomputed hash equals the decoded hash over its whole length");
    }
}
''' % dict(name=name, hl=hashlen, sl=saltlen)


def h_from_string(name, hashlen, saltlen):
    """PwHash::from_string behind the parser stub: every parsed record becomes a PwHash without panicking, and verifying
    with it runs Argon2 with exactly the parsed costs / algorithm / salt (no truncation or wrap of m * 1024)"""
    return rs.hdr(("barrier", "fmt"), extra=PARSE_STUB + A2_STUB) + r'''
fn %(name)s() {
    use crate::pwhash::*;
    let pw: [u8; 5] = kani::any();
    wit!(W_0, &pw);
    unsafe { PPS.saltlen = %(sl)d; PPS.hashlen = %(hl)d; }
    let r: Result<VecPwHash, crate::error::Error> = PwHash::from_string("x");
    kani::cover!(r.is_ok(), "parsed");
    assert!(r.is_ok(), "FROMSTRING_OK: every record the parser can return becomes a PwHash");
    unsafe { wit!(W_1, &PPS.t.to_le_bytes()); wit!(W_2, &PPS.m.to_le_bytes()); }
    let h = r.unwrap();
    let v = h.verify(&pw.to_vec());
    kani::cover!(v.is_ok(), "accept reachable");
    unsafe {
        let t = PPS.t as u64; let mb = (PPS.m as u64) * 1024;
        let in_range = t >= 1 && mb >= 8192 && mb <= 4398046510080;
        kani::cover!(in_range && PPS.m >= 4194304, "costs of 4 GiB and more reachable");
        if in_range {
            assert!(A2S.n == 1 && A2S.t == PPS.t && A2S.m == PPS.m && A2S.p == 1 && A2S.ty == PPS.alg, "FROMSTRING_COSTS: the PwHash carries exactly the parsed costs and algorithm (m KiB -> m * 1024 bytes without wrap-around)");
            assert!(A2S.saltlen == %(sl)d && A2S.outlen == %(hl)d, "FROMSTRING_LENGTHS: ... and the decoded salt / hash lengths");
            let mut i = 0; while i < %(sl)d { assert!(A2S.salt[i] == PPS.salt[i], "FROMSTRING_SALT: ... and the decoded salt"); i += 1; }
            let mut same = true; i = 0; while i < %(hl)d { if A2S.out[i] != PPS.hash[i] { same = false; } i += 1; }
            assert!(v.is_ok() == same, "FROMSTRING_VERDICT: verification accepts exactly when the recomputed hash equals the decoded hash");
        } else {
            assert!(v.is_err(), "FROMSTRING_RANGE: costs outside libsodium's ranges are refused at verification");
        }
    }
    core::mem::forget(v);
}
''' % dict(name=name, hl=hashlen, sl=saltlen)


def suites(tier, seed):
    src = rs.prelude() + rs.load("rng.rs") + BODY
    hs = []
    src += rs.hdr(("barrier", "fmt"), extra=PARSE_STUB) + H_REHASH
    hs.append(Harness("c10_needs_rehash", unwind=70, timeout=900, site="crypto_pwhash_str_needs_rehash", desc="symbolic (opslimit, memlimit) vs symbolic parsed costs", bounds={}))
    for hl, sl in ([(32, 16), (16, 16), (64, 16)] if tier == "quick" else [(32, 16), (16, 16), (64, 16), (33, 16), (17, 32), (64, 8)]):
        n = "c10_str_verify_h%d_s%d" % (hl, sl)
        src += h_verify(n, hl, sl)
        hs.append(Harness(n, unwind=80, timeout=900, site="crypto_pwhash_str_verify", desc="decoded hash %d bytes, salt %d bytes (symbolic contents, costs, algorithm); Argon2 output symbolic" % (hl, sl), bounds={"hash_len": hl, "salt_len": sl}))
    for hl, sl in ([(32, 16)] if tier == "quick" else [(32, 16), (16, 8), (64, 32)]):
        n = "c10_from_string_h%d_s%d" % (hl, sl)
        src += h_from_string(n, hl, sl)
        hs.append(Harness(n, unwind=80, timeout=900, site="PwHash::from_string", desc="PwHash::from_string behind the parser stub, then verify: parsed costs (all 2^32 x 2^32), algorithm, salt and hash reach Argon2 unchanged", bounds={"hash_len": hl, "salt_len": sl}))
    return [Suite("C10", src, hs, features=["base64"], stubs=rs.stub_names(("barrier", "fmt"), extra=PARSE_STUB + A2_STUB),
                  functions=["classic::crypto_pwhash::{crypto_pwhash_str_verify,crypto_pwhash_str_needs_rehash,convert_costs}", "pwhash::PwHash::{from_string,verify}"], assumptions=ASSUMPTIONS)]


def replay_from_string(v, scratch, hl, sl):
    """native: strings carrying the solver's costs and the cost boundaries (2^22 KiB = 4 GiB and up) are parsed by
    PwHash::from_string and re-encoded; a panic, an Err, or a different string reproduces (no hashing involved)"""
    import base64
    w = v.get("witness", {})
    wt = int.from_bytes(bytes((w.get("W_1") or [2, 0, 0, 0])[:4]), "little") or 2
    wm = int.from_bytes(bytes((w.get("W_2") or [64, 0, 0, 0])[:4]), "little") or 64
    b64 = lambda b: base64.b64encode(b).decode().rstrip("=")
    salt = bytes(range(1, sl + 1)); hsh = bytes(range(100, 100 + hl))
    costs = [(wt, wm), (2, 4194303), (2, 4194304), (2, 4194305), (3, 2**32 - 1), (2**32 - 1, 8), (1, 8)]
    strs = ["$argon2id$v=19$m=%d,t=%d,p=1$%s$%s" % (m_, t_, b64(salt), b64(hsh)) for t_, m_ in costs]
    main = r'''
use dryoc::pwhash::*;
fn main() {
    let strs: Vec<&str> = vec![STRS];
    let mut bad = false;
    for s in strs {
        let r = std::panic::catch_unwind(|| { let h: Result<VecPwHash, _> = PwHash::from_string(s); h.map(|h| h.to_string()) });
        match r {
            Err(_) => { println!("MISMATCH FROMSTRING panic while parsing {}", s); bad = true; }
            Ok(Err(e)) => { println!("MISMATCH FROMSTRING valid string rejected: {} ({:?})", s, e); bad = true; }
            Ok(Ok(t)) => { if t != s { println!("MISMATCH FROMSTRING round trip differs: {} -> {}", s, t); bad = true; } }
        }
    }
    if bad { std::process::exit(1); }
    println!("agree");
}
'''.replace("STRS", ", ".join('"%s"' % x for x in strs))
    outs = runner.native_run(scratch, "c10", main, features=["base64"])
    v["replay_input"] = {"strings": strs, "program": main}
    return any(rc == 1 and "MISMATCH" in o for _, rc, o in outs), "; ".join("%s rc=%s %s" % (p, rc, o.strip()[-400:]) for p, rc, o in outs)


def replay_rehash(v, scratch):
    """native: crypto_pwhash_str_needs_rehash on strings carrying the solver's stored costs, asked with the solver's
    (opslimit, memlimit) and with limits around the stored costs (exact, +512 bytes, +1023 bytes, one KiB more, one pass
    more); libsodium's crypto_pwhash_str_needs_rehash is the oracle wherever it answers 0 or 1"""
    import base64, ctypes
    so = ctypes.CDLL("libsodium.so.23")
    w = v.get("witness", {})
    le = lambda k, n, d: (int.from_bytes(bytes((w.get(k) or [])[:n]), "little") if w.get(k) else d)
    wops, wmem, wt, wm = le("W_0", 8, 2), le("W_3", 8, 65536), le("W_1", 4, 2), le("W_2", 4, 64)
    if wt == 0xa1a1a1a1 and wm == 0xa2a2a2a2:   # slots never written: the call did not return (panic) - use plain stored costs
        wt, wm = 2, 64
    b64 = lambda b: base64.b64encode(b).decode().rstrip("=")
    salt = bytes(range(1, 17)); hsh = bytes(range(100, 132))
    cases = [(wt, wm, wops, wmem)]
    for t, m in [(wt, wm), (2, 64), (3, 100)]:
        if 1 <= t and 8 <= m <= 4194303:
            cases += [(t, m, wops, wmem), (t, m, t, m * 1024), (t, m, t, m * 1024 + 512), (t, m, t, m * 1024 + 1023), (t, m, t, (m + 1) * 1024), (t, m, t + 1, m * 1024)]
    rows = []
    for t, m, ops, mem in cases:
        st = "$argon2id$v=19$m=%d,t=%d,p=1$%s$%s" % (m, t, b64(salt), b64(hsh))
        rc = so.crypto_pwhash_str_needs_rehash(st.encode() + b"\0", ctypes.c_ulonglong(ops), ctypes.c_size_t(mem))
        rows.append((st, ops, mem, rc))   # rc outside {0, 1}: libsodium refuses the limits - no verdict to compare, a panic still counts
    if not rows:
        return None, "libsodium answers none of the candidate (string, limits) pairs"
    main = r'''
use dryoc::classic::crypto_pwhash::crypto_pwhash_str_needs_rehash;
fn main() {
    let rows: Vec<(&str, u64, usize, Option<bool>)> = vec![ROWS];
    let mut bad = false;
    for (s, ops, mem, want) in rows {
        match std::panic::catch_unwind(|| crypto_pwhash_str_needs_rehash(s, ops, mem).map_err(|_| ())) {
            Ok(Ok(b)) if want.is_none() || Some(b) == want => {}
            Ok(Err(())) if want.is_none() => {}
            Ok(r) => { println!("MISMATCH REHASH {} opslimit={} memlimit={}: dryoc {:?}, libsodium {:?}", s, ops, mem, r, want); bad = true; }
            Err(_) => { println!("MISMATCH REHASH panic on {} opslimit={} memlimit={}", s, ops, mem); bad = true; }
        }
    }
    if bad { std::process::exit(1); }
    println!("agree");
}
'''.replace("ROWS", ", ".join('("%s", %d, %d, %s)' % (st, ops, mem, {0: "Some(false)", 1: "Some(true)"}.get(rc, "None")) for st, ops, mem, rc in rows))
    outs = runner.native_run(scratch, "c10", main, features=["base64"])
    v["replay_input"] = {"rows": rows, "program": main}
    return any(rc == 1 and "MISMATCH" in o for _, rc, o in outs), "; ".join("%s rc=%s %s" % (p_, rc, o.strip()[-300:]) for p_, rc, o in outs)


def replay(v, scratch):
    """native replay: an Argon2id string whose hash is not 32 bytes long (hash computed by libsodium's raw crypto_pwhash,
    encoded in PHC form; libsodium's own crypto_pwhash_str_verify accepts it) must verify under dryoc for the right password"""
    import base64, ctypes, re
    so = ctypes.CDLL("libsodium.so.23")
    h = v["harness"]
    m = re.search(r"_h(\d+)_s(\d+)", h)
    hl, sl = (int(m.group(1)), int(m.group(2))) if m else (16, 16)
    if "from_string" in h:
        return replay_from_string(v, scratch, hl, sl)
    if "needs_rehash" in h:
        return replay_rehash(v, scratch)
    pw = b"hunter2"; salt = bytes(range(1, sl + 1))
    out = ctypes.create_string_buffer(hl)
    # libsodium's high-level API insists on 16-byte salts; use its argon2 core through crypto_pwhash when sl == 16
    if sl != 16:
        return None, "no libsodium oracle for %d-byte salts" % sl
    rc = so.crypto_pwhash(out, ctypes.c_ulonglong(hl), pw, ctypes.c_ulonglong(len(pw)), salt, ctypes.c_ulonglong(2), ctypes.c_size_t(8192 * 8), 2)
    if rc != 0:
        return None, "libsodium crypto_pwhash failed"
    b64 = lambda b: base64.b64encode(b).decode().rstrip("=")
    s = "$argon2id$v=19$m=64,t=2,p=1$%s$%s" % (b64(salt), b64(out.raw))
    sod = so.crypto_pwhash_str_verify(s.encode() + b"\0", pw, ctypes.c_ulonglong(len(pw)))
    main = r'''
use dryoc::classic::crypto_pwhash::crypto_pwhash_str_verify;
fn main() {
    let s = "%s";
    if crypto_pwhash_str_verify(s, b"hunter2").is_err() { println!("MISMATCH STRVERIFY valid string with a %d-byte hash rejected for the right password: {}", s); std::process::exit(1); }
    if crypto_pwhash_str_verify(s, b"hunter3").is_ok() { println!("MISMATCH STRVERIFY wrong password accepted"); std::process::exit(1); }
    println!("agree");
}
''' % (s, hl)
    outs = runner.native_run(scratch, "c10", main, features=["base64"])
    v["replay_input"] = {"string": s, "libsodium_verify_rc": sod, "program": main}
    return any(rc == 1 and "MISMATCH" in o for _, rc, o in outs) and sod == 0, "; ".join("%s rc=%s %s" % (p, rc, o.strip()[-300:]) for p, rc, o in outs) + " libsodium=%s" % sod
