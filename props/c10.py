"""C10 - password-hash strings (PARTIAL: the string encoder / parser themselves are out of reach).

`format!` with integer Display and the run-time-built base64 engine do not finish symbolic execution even on fully
literal inputs (25 min / 20 GB, see DESIGN.md 9.6), so the text layer is NOT decided. What is decided, with the parser
replaced by a contract stub returning an arbitrary parsed record (all fields present, as the real parser guarantees):
  * needs-rehash answers false exactly when both cost parameters match (symbolic costs on both sides);
  * string verification runs Argon2 with exactly the parsed (t, m, p, salt, algorithm), asks for as many bytes as the
    decoded hash holds, and accepts exactly when the result equals the decoded hash over its whole length."""
from vlib.engine import Harness, Suite
from vlib import rs, runner

ASSUMPTIONS = ["Pwhash::parse_encoded_pwhash is replaced by a stub returning an arbitrary record with every field present (its postcondition); the text <-> record mapping is NOT checked",
               "Argon2 is a contract stub (C09)"]
OUTSIDE = ["the string encoder (pwhash_to_string / PwHash::to_string) and the parser (parse_encoded_pwhash / PwHash::from_string): text layer not encodable within reach",
           "by reading only: PwHash::to_string ignores config.algorithm and always writes $argon2id$"]

BODY = r'''
use crate::classic::crypto_pwhash::*;
pub struct PpState { pub magic: u64, pub t: u32, pub m: u32, pub p: u32, pub alg: u8, pub saltlen: usize, pub hashlen: usize, pub salt: [u8; 32], pub hash: [u8; 64] }
pub static mut PPS: PpState = PpState { magic: 0x5050000F53EDC0DE, t: 0, m: 0, p: 0, alg: 0, saltlen: 0, hashlen: 0, salt: [0; 32], hash: [0; 64] };
fn parse_stub(_s: &str) -> Result<Pwhash, crate::error::Error> {
    unsafe {
        let t: u32 = kani::any(); let m: u32 = kani::any();
        let alg_i: bool = kani::any();
        let salt: [u8; 32] = kani::any(); let hash: [u8; 64] = kani::any();
        PPS.t = t; PPS.m = m; PPS.p = 1; PPS.alg = if alg_i { 1 } else { 2 }; PPS.salt = salt; PPS.hash = hash;
        Ok(Pwhash {
            pwhash: Some(hash[..PPS.hashlen].to_vec()), salt: Some(salt[..PPS.saltlen].to_vec()),
            type_: Some(if alg_i { PasswordHashAlgorithm::Argon2i13 } else { PasswordHashAlgorithm::Argon2id13 }),
            t_cost: Some(t), m_cost: Some(m), parallelism: Some(1), version: Some(0x13),
        })
    }
}
'''
PARSE_STUB = [("crate::classic::crypto_pwhash::Pwhash::parse_encoded_pwhash", "parse_stub")]
A2_STUB = [("crate::argon2::argon2_hash", "argon2_stub")]

H_REHASH = r'''
fn c10_needs_rehash() {
    let ops: u64 = kani::any(); let mem: usize = kani::any();
    unsafe { PPS.saltlen = 16; PPS.hashlen = 32; }
    let r = crypto_pwhash_str_needs_rehash("x", ops, mem);
    kani::cover!(r.is_ok(), "answered");
    assert!(r.is_ok(), "REHASH_OK: a parseable string gets an answer");
    unsafe {
        let same = PPS.t == ops as u32 && PPS.m == (mem / 1024) as u32;
        kani::cover!(same, "matching costs reachable");
        assert!(r.unwrap() == !same, "REHASH_IFF_COSTS_DIFFER: needs-rehash is false exactly when both cost parameters match");
    }
}
'''


def h_verify(name, hashlen, saltlen):
    return rs.hdr(("barrier", "fmt"), extra=PARSE_STUB + A2_STUB) + r'''
fn %(name)s() {
    let pw: [u8; 5] = kani::any();
    wit!(W_0, &pw);
    unsafe { PPS.saltlen = %(sl)d; PPS.hashlen = %(hl)d; }
    let r = crypto_pwhash_str_verify("x", &pw);
    kani::cover!(r.is_ok(), "accept reachable");
    kani::cover!(r.is_err(), "reject reachable");
    unsafe {
        assert!(A2S.n == 1 && A2S.t == PPS.t && A2S.m == PPS.m && A2S.p == 1 && A2S.ty == PPS.alg, "STRVERIFY_ARGS: Argon2 runs with the parsed costs, parallelism and algorithm");
        assert!(A2S.saltlen == %(sl)d && A2S.pwlen == 5, "STRVERIFY_ARGS: ... the decoded salt and the presented password");
        let mut i = 0; while i < %(sl)d { assert!(A2S.salt[i] == PPS.salt[i], "STRVERIFY_ARGS: ... the decoded salt"); i += 1; }
        assert!(A2S.outlen == %(hl)d, "STRVERIFY_HASH_LENGTH: the recomputed hash has the decoded hash's length");
        let mut same = true; i = 0; while i < %(hl)d { if A2S.out[i] != PPS.hash[i] { same = false; } i += 1; }
        assert!(r.is_ok() == same, "STRVERIFY_VERDICT: accepted exactly when the recomputed hash equals the decoded hash over its whole length");
    }
}
''' % dict(name=name, hl=hashlen, sl=saltlen)


def suites(tier, seed):
    src = rs.prelude() + rs.load("rng.rs") + BODY
    hs = []
    src += rs.hdr(("barrier", "fmt"), extra=PARSE_STUB) + H_REHASH
    hs.append(Harness("c10_needs_rehash", unwind=70, timeout=900, site="crypto_pwhash_str_needs_rehash", desc="symbolic (opslimit, memlimit) vs symbolic parsed costs", bounds={}))
    for hl, sl in ([(32, 16), (16, 16), (64, 16)] if tier == "quick" else [(32, 16), (16, 16), (64, 16), (33, 16), (17, 32), (64, 8)]):
        n = "c10_str_verify_h%d_s%d" % (hl, sl)
        src += h_verify(n, hl, sl)
        hs.append(Harness(n, unwind=80, timeout=900, site="crypto_pwhash_str_verify", desc="decoded hash %d bytes, salt %d bytes (symbolic contents, costs, algorithm); Argon2 output symbolic" % (hl, sl), bounds={"hash_len": hl, "salt_len": sl}))
    return [Suite("C10", src, hs, features=["base64"], stubs=rs.stub_names(("barrier", "fmt"), extra=PARSE_STUB + A2_STUB),
                  functions=["classic::crypto_pwhash::{crypto_pwhash_str_verify,crypto_pwhash_str_needs_rehash,convert_costs}"], assumptions=ASSUMPTIONS)]


def replay(v, scratch):
    """native replay: an Argon2id string whose hash is not 32 bytes long (hash computed by libsodium's raw crypto_pwhash,
    encoded in PHC form; libsodium's own crypto_pwhash_str_verify accepts it) must verify under dryoc for the right password"""
    import base64, ctypes, re
    so = ctypes.CDLL("libsodium.so.23")
    h = v["harness"]
    m = re.search(r"_h(\d+)_s(\d+)", h)
    hl, sl = (int(m.group(1)), int(m.group(2))) if m else (16, 16)
    pw = b"hunter2"; salt = bytes(range(1, sl + 1))
    out = ctypes.create_string_buffer(hl)
    # libsodium's high-level API insists on 16-byte salts; use its argon2 core through crypto_pwhash when sl == 16
    if sl != 16:
        return None, "no libsodium oracle for %d-byte salts" % sl
    rc = so.crypto_pwhash(out, ctypes.c_ulonglong(hl), pw, ctypes.c_ulonglong(len(pw)), salt, ctypes.c_ulonglong(2), ctypes.c_size_t(8192 * 8), 2)
    if rc != 0:
        return None, "libsodium crypto_pwhash failed"
    b64 = lambda b: base64.b64encode(b).decode().rstrip("=")
    s = "$argon2id$v=19$m=64,t=2,p=1$%s$%s" % (b64(salt), b64(out.raw))
    sod = so.crypto_pwhash_str_verify(s.encode() + b"\0", pw, ctypes.c_ulonglong(len(pw)))
    main = r'''
use dryoc::classic::crypto_pwhash::crypto_pwhash_str_verify;
fn main() {
    let s = "%s";
    if crypto_pwhash_str_verify(s, b"hunter2").is_err() { println!("MISMATCH STRVERIFY valid string with a %d-byte hash rejected for the right password: {}", s); std::process::exit(1); }
    if crypto_pwhash_str_verify(s, b"hunter3").is_ok() { println!("MISMATCH STRVERIFY wrong password accepted"); std::process::exit(1); }
    println!("agree");
}
''' % (s, hl)
    outs = runner.native_run(scratch, "c10", main, features=["base64"])
    v["replay_input"] = {"string": s, "libsodium_verify_rc": sod, "program": main}
    return any(rc == 1 and "MISMATCH" in o for _, rc, o in outs) and sod == 0, "; ".join("%s rc=%s %s" % (p, rc, o.strip()[-300:]) for p, rc, o in outs) + " libsodium=%s" % sod
