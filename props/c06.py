"""C06 - Ed25519 signatures are RFC 8032 exact and verification is strict (dryoc's part).

SHA-512 is an ideal hash with a logged transcript, curve25519-dalek's group and scalar
operations are contract stubs returning arbitrary values (Scalar::from_bytes_mod_order:
v < l and b < l => v == b). The solver then decides everything dryoc adds: which bytes are
hashed in which order (R, A, M, dom2 prefix in pre-hashed mode), which operands reach the
scalar arithmetic, that S >= l is rejected for EVERY 256-bit S (not just S + k*l), that a
failed point decoding or a small-order R / A is rejected, that the verdict is exactly the
final point comparison, that signing draws no randomness, and the combined-form framing."""
from vlib.engine import Harness, Suite
from vlib import rs, runner

ASSUMPTIONS = [
    "SHA-512 idealised (logged transcript, arbitrary digest); curve25519-dalek group law and scalar arithmetic are trusted base (contract stubs)",
    "Scalar::from_bytes_mod_order contract: result < l, and input < l => result == input",
    "'every honest signature verifies' and byte equality of R, S with RFC 8032 given the right operands follow from the group law (not solver-checked)",
]
OUTSIDE = ["non-canonical encodings of large-order points as R / A (documented libsodium/dalek divergence, no failing input can be exhibited)",
           "message lengths beyond the listed literals"]

EXTRA_SIGN = [("<&curve25519_dalek::edwards::EdwardsBasepointTable as core::ops::Mul<&curve25519_dalek::scalar::Scalar>>::mul", "bp_mul_log_stub"),
              ("curve25519_dalek::edwards::EdwardsPoint::compress", "compress_log_stub2"),
              ("<&curve25519_dalek::scalar::Scalar as core::ops::Mul<&curve25519_dalek::scalar::Scalar>>::mul", "scalar_mul_stub"),
              ("<&curve25519_dalek::scalar::Scalar as core::ops::Add<&curve25519_dalek::scalar::Scalar>>::add", "scalar_add_stub"),
              ("<rand_core::OsRng as rand_core::TryRngCore>::try_fill_bytes", "rng_oracle_stub")]

BODY = r'''
use crate::classic::crypto_sign::*;
use curve25519_dalek::edwards::EdwardsBasepointTable;

pub struct SgState { pub magic: u64, pub bp_n: usize, pub bp_scalar: [[u8; 32]; 2], pub comp_n: usize, pub comp_out: [[u8; 32]; 2],
                     pub mul_n: usize, pub mul_a: [u8; 32], pub mul_b: [u8; 32], pub mul_out: [u8; 32],
                     pub add_n: usize, pub add_a: [u8; 32], pub add_b: [u8; 32], pub add_out: [u8; 32] }
pub static mut SGS: SgState = SgState { magic: 0x5167000753EDC0DE, bp_n: 0, bp_scalar: [[0; 32]; 2], comp_n: 0, comp_out: [[0; 32]; 2],
                     mul_n: 0, mul_a: [0; 32], mul_b: [0; 32], mul_out: [0; 32], add_n: 0, add_a: [0; 32], add_b: [0; 32], add_out: [0; 32] };
fn bp_mul_log_stub<'a, 'b>(_t: &'a EdwardsBasepointTable, s: &'b Scalar) -> EdwardsPoint where 'a: 'a, 'b: 'b {
    unsafe { if SGS.bp_n < 2 { SGS.bp_scalar[SGS.bp_n] = bytes_of(s); } SGS.bp_n += 1; }
    any_point()
}
fn compress_log_stub2(_p: &EdwardsPoint) -> CompressedEdwardsY {
    let o: [u8; 32] = kani::any();
    unsafe { if SGS.comp_n < 2 { SGS.comp_out[SGS.comp_n] = o; } SGS.comp_n += 1; }
    CompressedEdwardsY(o)
}
fn scalar_mul_stub<'a, 'b>(a: &'a Scalar, b: &'b Scalar) -> Scalar where 'a: 'a, 'b: 'b {
    let o: [u8; 32] = kani::any(); kani::assume(lt_l(&o));
    unsafe { SGS.mul_a = bytes_of(a); SGS.mul_b = bytes_of(b); SGS.mul_out = o; SGS.mul_n += 1; }
    scalar_of(o)
}
fn scalar_add_stub<'a, 'b>(a: &'a Scalar, b: &'b Scalar) -> Scalar where 'a: 'a, 'b: 'b {
    let o: [u8; 32] = kani::any(); kani::assume(lt_l(&o));
    unsafe { SGS.add_a = bytes_of(a); SGS.add_b = bytes_of(b); SGS.add_out = o; SGS.add_n += 1; }
    scalar_of(o)
}

const DOM2: [u8; 34] = *b"SigEd25519 no Ed25519 collisions\x01\x00";

fn sha_presets() {
    unsafe {
        let a: [u8; 64] = kani::any(); let b: [u8; 64] = kani::any(); let c: [u8; 64] = kani::any(); let d: [u8; 64] = kani::any();
        DKS.sha_out[0] = a; DKS.sha_out[1] = b; DKS.sha_out[2] = c; DKS.sha_out[3] = d;
    }
}

/// transcript of hash instance `inst` == concatenation of the given parts
fn sha_is(inst: usize, parts: &[&[u8]]) -> bool {
    unsafe {
        let mut pos = 0usize;
        let mut p = 0;
        while p < parts.len() {
            let mut i = 0;
            while i < parts[p].len() {
                if pos >= DKS.sha_len[inst] || DKS.sha_stream[inst][pos] != parts[p][i] { return false; }
                pos += 1; i += 1;
            }
            p += 1;
        }
        pos == DKS.sha_len[inst]
    }
}

fn check_verify_common(sig: &[u8; 64], pk: &[u8; 32], msg: &[u8], prehashed: bool, hash_inst: usize, ok: bool) {
    unsafe {
        let mut sbytes = [0u8; 32]; let mut rbytes = [0u8; 32];
        let mut i = 0; while i < 32 { rbytes[i] = sig[i]; sbytes[i] = sig[32 + i]; i += 1; }
        if !lt_l(&sbytes) { assert!(!ok, "SIG_S_CANONICAL: a signature whose scalar half is >= the group order is rejected"); }
        // point decoding / small order, identified by input bytes (order of the checks is free)
        let mut j = 0;
        while j < 3 && j < DKS.dec_n {
            if !DKS.dec_some[j] { assert!(!ok, "POINT_DECODE_FAIL_REJECTED: an undecodable R or public key is rejected"); }
            j += 1;
        }
        j = 0;
        while j < 3 && j < DKS.small_n {
            if DKS.small_out[j] { assert!(!ok, "SMALL_ORDER_REJECTED: a small-order R or public key is rejected"); }
            j += 1;
        }
        if ok {
            assert!(DKS.dec_n == 2 && DKS.small_n == 2, "BOTH_POINTS_CHECKED: R and the public key are both decoded and small-order checked before accepting");
            assert!((DKS.dec_in[0] == rbytes && DKS.dec_in[1] == *pk) || (DKS.dec_in[0] == *pk && DKS.dec_in[1] == rbytes), "BOTH_POINTS_CHECKED: the decoded points are R and the public key");
            assert!(DKS.fmo_n == 1 && DKS.fmo_in[0] == sbytes, "S_FROM_SIGNATURE: the scalar is the second half of the signature");
            if prehashed {
                assert!(sha_is(hash_inst, &[&DOM2, &rbytes, pk, msg]), "HASH_INPUT: k = H(dom2 || R || A || PH(M)) in pre-hashed mode");
            } else {
                assert!(sha_is(hash_inst, &[&rbytes, pk, msg]), "HASH_INPUT: k = H(R || A || M) - every bit of R, the key and the message is hashed");
            }
            assert!(DKS.fw_n == 1 && DKS.fw_in[0] == DKS.sha_out[hash_inst], "K_FROM_HASH: k is the wide reduction of that hash");
            assert!(DKS.dsm_n == 1 && DKS.dsm_a == DKS.fw_out[0] && DKS.dsm_b == DKS.fmo_out[0], "CHECK_EQUATION_OPERANDS: the check equation uses k and S");
            assert!(DKS.eq_n == 1 && DKS.eq_out, "VERDICT_IS_POINT_EQUALITY: Ok only if the recomputed point equals R");
        }
        if DKS.eq_n == 1 && !DKS.eq_out { assert!(!ok, "VERDICT_IS_POINT_EQUALITY: a failed point comparison is rejected"); }
    }
}
'''


def h_verify(name, n, mode):
    """mode: detached | open | ph | object"""
    if mode == "detached":
        call = "let r = crypto_sign_verify_detached(&sig, &msg, &pk);"
        pre = ""
        chk = "check_verify_common(&sig, &pk, &msg, false, 0, r.is_ok());"
    elif mode == "open":
        call = ("let mut sm = [0u8; %d]; { let mut i = 0; while i < 64 { sm[i] = sig[i]; i += 1; } i = 0; while i < %d { sm[64 + i] = msg[i]; i += 1; } }\n"
                "    let pre: [u8; %d] = kani::any(); let mut out = pre;\n    let r = crypto_sign_open(&mut out, &sm, &pk);") % (64 + n, n, n)
        pre = ""
        chk = ("check_verify_common(&sig, &pk, &msg, false, 0, r.is_ok());\n"
               "    if r.is_ok() { assert!(out == msg, \"OPEN_COPIES_MESSAGE: the opened message is the signed message\"); }\n"
               "    else { assert!(out == pre, \"OPEN_NO_OUTPUT_ON_ERR: nothing is copied out when verification fails\"); }")
    elif mode == "ph":
        call = ("let mut st = crypto_sign_init();\n    crypto_sign_update(&mut st, &msg[..%d]); crypto_sign_update(&mut st, &msg[%d..]);\n"
                "    let r = crypto_sign_final_verify(st, &sig, &pk);") % (n // 2, n // 2)
        pre = ""
        chk = ("unsafe { assert!(sha_is(0, &[&msg]), \"PREHASH_INPUT: the pre-hash is over the concatenated updates\"); }\n"
               "    let ph = unsafe { DKS.sha_out[0] };\n    check_verify_common(&sig, &pk, &ph, true, 1, r.is_ok());")
    return rs.hdr(("barrier", "fmt") + rs.ED_VERIFY, extra=EXTRA_SIGN[1:2]) + r'''
fn %(name)s() {
    let sig: [u8; 64] = kani::any(); let pk: [u8; 32] = kani::any(); let msg: [u8; %(n)d] = kani::any();
    wit!(W_0, &sig); wit!(W_1, &pk); wit!(W_2, &msg);
    sha_presets();
    %(call)s
    kani::cover!(r.is_ok(), "accepting path reachable");
    kani::cover!(r.is_err(), "rejecting path reachable");
    %(chk)s
    core::mem::forget(r);   // io::Error's recursive drop glue is irrelevant here and can exhaust memory
}
''' % dict(name=name, n=n, call=call, chk=chk)


def h_sign(name, n, mode):
    if mode == "detached":
        call = "let mut sig = [0u8; 64];\n    let r = crypto_sign_detached(&mut sig, &msg, &sk);"
        pre = False
        hbase = 0
        m = "&msg"
    elif mode == "combined":
        call = ("let mut sm = [0u8; %d];\n    let r = crypto_sign(&mut sm, &msg, &sk);\n    let mut sig = [0u8; 64]; { let mut i = 0; while i < 64 { sig[i] = sm[i]; i += 1; } }\n"
                "    { let mut i = 0; while i < %d { assert!(sm[64 + i] == msg[i], \"COMBINED_LAYOUT: signed message = signature || message\"); i += 1; } }") % (64 + n, n)
        pre = False
        hbase = 0
        m = "&msg"
    else:  # ph
        call = ("let mut st = crypto_sign_init();\n    crypto_sign_update(&mut st, &msg[..%d]); crypto_sign_update(&mut st, &msg[%d..]);\n"
                "    let mut sig = [0u8; 64];\n    let r = crypto_sign_final_create(st, &mut sig, &sk);") % (n // 2, n // 2)
        pre = True
        hbase = 1
        m = "&ph"
    return rs.hdr(("barrier", "fmt", "fmo", "fwide", "sha_update", "sha_finalize"), extra=EXTRA_SIGN) + r'''
fn %(name)s() {
    let sk: [u8; 64] = kani::any(); let msg: [u8; %(n)d] = kani::any();
    wit!(W_0, &sk); wit!(W_2, &msg);
    sha_presets();
    %(call)s
    kani::cover!(r.is_ok(), "signing returns Ok");
    assert!(r.is_ok(), "SIGN_OK: signing succeeds");
    unsafe {
        assert!(RNGS.n == 0, "SIGN_DETERMINISTIC: signing draws no randomness");
        %(prehash)s
        let az = DKS.sha_out[%(h0)d];
        assert!(sha_is(%(h0)d, &[&sk[..32]]), "AZ_INPUT: az = H(seed)");
        %(nonce_chk)s
        assert!(DKS.fw_n == 2 && DKS.fw_in[0] == DKS.sha_out[%(h1)d], "R_SCALAR: r = wide reduction of the nonce hash");
        assert!(SGS.bp_n == 1 && SGS.bp_scalar[0] == DKS.fw_out[0] && SGS.comp_n == 1, "R_POINT: R = compress(r * B)");
        let rb = SGS.comp_out[0];
        let mut i = 0; while i < 32 { assert!(sig[i] == rb[i], "SIG_R: the first half of the signature is R"); i += 1; }
        %(hram_chk)s
        assert!(DKS.fw_in[1] == DKS.sha_out[%(h2)d], "K_FROM_HASH: k = wide reduction of H(.. R || A || M)");
        let mut a = [0u8; 32]; i = 0; while i < 32 { a[i] = az[i]; i += 1; }
        a[0] &= 248; a[31] &= 127; a[31] |= 64;
        assert!(DKS.fmo_n == 1 && DKS.fmo_in[0] == a, "SECRET_SCALAR: a = clamp(az[0..32])");
        let k = DKS.fw_out[1]; let r_ = DKS.fw_out[0]; let av = DKS.fmo_out[0];
        assert!(SGS.mul_n == 1 && ((SGS.mul_a == k && SGS.mul_b == av) || (SGS.mul_a == av && SGS.mul_b == k)), "S_OPERANDS: S = k * a + r (product operands)");
        assert!(SGS.add_n == 1 && ((SGS.add_a == SGS.mul_out && SGS.add_b == r_) || (SGS.add_b == SGS.mul_out && SGS.add_a == r_)), "S_OPERANDS: S = k * a + r (sum operands)");
        i = 0; while i < 32 { assert!(sig[32 + i] == SGS.add_out[i], "SIG_S: the second half of the signature is S"); i += 1; }
    }
}
''' % dict(name=name, n=n, call=call, h0=hbase, h1=hbase + 1, h2=hbase + 2,
           prehash=("assert!(sha_is(0, &[&msg]), \"PREHASH_INPUT: the pre-hash is over the concatenated updates\"); let ph = DKS.sha_out[0];" if pre else ""),
           nonce_chk=("assert!(sha_is(%d, &[&DOM2, &az[32..], %s]), \"NONCE_INPUT: nonce = H(dom2 || az[32..64] || PH(M))\");" % (hbase + 1, m) if pre
                      else "assert!(sha_is(%d, &[&az[32..], %s]), \"NONCE_INPUT: nonce = H(az[32..64] || M)\");" % (hbase + 1, m)),
           hram_chk=("assert!(sha_is(%d, &[&DOM2, &rb, &sk[32..], %s]), \"HASH_INPUT: k = H(dom2 || R || A || PH(M))\");" % (hbase + 2, m) if pre
                     else "assert!(sha_is(%d, &[&rb, &sk[32..], %s]), \"HASH_INPUT: k = H(R || A || M) with A = sk[32..64]\");" % (hbase + 2, m)))


def suites(tier, seed):
    src = rs.prelude() + rs.load("aead.rs") + rs.load("dalek.rs") + rs.load("rng.rs") + BODY
    hs = []
    lens = [0, 3] if tier == "quick" else [0, 1, 3, 8, 33]
    for n in lens:
        for mode in ("detached", "open") + (("ph",) if n in (3, 8) else ()):
            name = "c06_verify_%s_n%d" % (mode, n)
            src += h_verify(name, n, mode)
            hs.append(Harness(name, unwind=132, timeout=1800, site="verify:" + mode,
                              desc="verification (%s), message length %d: symbolic signature/key/message, arbitrary stub outcomes" % (mode, n), bounds={"message_len": n}))
        for mode in ("detached", "combined") + (("ph",) if n in (3, 8) else ()):
            name = "c06_sign_%s_n%d" % (mode, n)
            src += h_sign(name, n, mode)
            hs.append(Harness(name, unwind=132, timeout=1800, site="sign:" + mode,
                              desc="signing (%s), message length %d: transcript and operand identities, determinism" % (mode, n), bounds={"message_len": n}))
    stubs = rs.stub_names(("barrier", "fmt") + rs.ED_VERIFY, extra=EXTRA_SIGN)
    return [Suite("C06", src, hs, stubs=stubs,
                  functions=["classic::crypto_sign_ed25519::{crypto_sign_ed25519_detached_impl,crypto_sign_ed25519_verify_detached_impl,crypto_sign_ed25519,crypto_sign_ed25519_open,ed25519ph_*}",
                             "classic::crypto_sign::{crypto_sign,crypto_sign_open,crypto_sign_detached,crypto_sign_verify_detached,crypto_sign_init,update,final_create,final_verify}"],
                  assumptions=ASSUMPTIONS)]


def replay(v, scratch):
    """every C06 counterexample is confirmed by the differential battery replay/c06_battery.rs (dryoc vs libsodium): the
    solver's witness plus the families the property quantifies over"""
    import os
    from vlib.engine import VERIF
    w = v.get("witness", {})
    pad = lambda k, n: ((w.get(k) or []) + [0] * n)[:n]
    is_sign = "sign_" in v.get("harness", "")
    sig = pad("W_0", 64) if not is_sign else [0] * 64
    seed = pad("W_0", 32) if is_sign else [7] * 32
    pk = pad("W_1", 32)
    import re
    m = re.search(r"_n(\d+)$", v.get("harness", ""))
    n = int(m.group(1)) if m else 0
    msg = pad("W_2", n)
    main = open(os.path.join(VERIF, "replay", "c06_battery.rs")).read()
    main = main.replace("= WSIG;", "= %s;" % runner.rust_bytes(sig)).replace("= WPK;", "= %s;" % runner.rust_bytes(pk)).replace("vec!WMSG;", "vec!%s;" % runner.rust_bytes(msg)).replace("= WSEED;", "= %s;" % runner.rust_bytes(seed))
    outs = runner.native_run(scratch, "c06", main, extra_deps='libsodium-sys = "0.2"\ncurve25519-dalek = "4.1.3"\n', profiles=("release",), timeout=1800)
    v["replay_input"] = {"signature": sig, "public_key": pk, "message": msg, "seed": seed, "program": "replay/c06_battery.rs"}
    return any(rc == 1 and "MISMATCH" in o for _, rc, o in outs), "; ".join("%s rc=%s %s" % (p_, rc, o.strip()[-600:]) for p_, rc, o in outs)
