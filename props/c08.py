"""C08 - incremental hash, MAC and signing equal the one-shot result for any chunking.

The one-shot result is characterised (C07) by the kernel transcript - the sequence of compression / block calls with
their inputs - so the solver checks that a message fed as consecutive update calls produces exactly the transcript of
the concatenated message: BLAKE2b (classic init/update/final and the GenericHash object), Poly1305 (classic and
OnetimeAuth object), HMAC-SHA-512-256 and SHA-512 (compress512 transcript). Split points are literal shapes chosen to
hit every (buffer empty / partial / exactly full) x (piece <, =, > block, multiple of block, empty) cell; contents,
keys are symbolic. Pre-hashed incremental signing forwards updates to SHA-512 (C06's ph harnesses use a 2-way split)."""
import itertools
import random

from vlib.engine import Harness, Suite
from vlib import rs, runner
from props import c07

ASSUMPTIONS = c07.ASSUMPTIONS + ["a k-way run is a composition of steps from reachable buffer states; shapes beyond the listed ones are not proved by induction (the buffer state is private)"]
OUTSIDE = ["partitions into more than 3 pieces", "message lengths beyond the listed shapes"]


def offsets(shape):
    o, acc = [], 0
    for p in shape:
        o.append((acc, acc + p))
        acc += p
    return o


def b2_call(shape, outlen, klen, obj):
    key = "Some(&key[..])" if klen else "None"
    ups = "\n    ".join("crypto_generichash_update(&mut st, &m[%d..%d]);" % ab for ab in offsets(shape))
    if obj:
        ups = "\n    ".join("st.update(&m[%d..%d]);" % ab for ab in offsets(shape))
        return ("let mut st: crate::generichash::GenericHash<%d, %d> = crate::generichash::GenericHash::new(%s).unwrap();\n    %s\n"
                "    let r: Result<StackByteArray<%d>, crate::Error> = st.finalize();\n    if let Ok(o) = &r { out.copy_from_slice(o.as_slice()); }") % (
            klen if klen else 32, outlen, ("Some(&StackByteArray::<%d>::from(key))" % klen) if klen else "None::<&StackByteArray<32>>", ups, outlen)
    return "let mut st = crypto_generichash_init(%s, %d).unwrap();\n    %s\n    let r = crypto_generichash_final(st, &mut out);" % (key, outlen, ups)


def poly_call(shape, obj):
    if obj:
        ups = "\n    ".join("st.update(&m[%d..%d].to_vec());" % ab for ab in offsets(shape))
        return "let mut st = crate::onetimeauth::OnetimeAuth::new(StackByteArray::<32>::from(key));\n    %s\n    let _mac: StackByteArray<16> = st.finalize();" % ups
    ups = "\n    ".join("crypto_onetimeauth_update(&mut st, &m[%d..%d]);" % ab for ab in offsets(shape))
    return "let mut st = crypto_onetimeauth_init(&key);\n    %s\n    let mut mac = [0u8; 16]; crypto_onetimeauth_final(st, &mut mac);" % ups


def hmac_call(shape):
    ups = "\n    ".join("crypto_auth_update(&mut st, &m[%d..%d]);" % ab for ab in offsets(shape))
    return "let mut st = crypto_auth_init(&key);\n    %s\n    crypto_auth_final(st, &mut mac);" % ups


def h_sha512(name, shape):
    mlen = sum(shape)
    padded = ((mlen + 17 + 127) // 128) * 128
    nb = padded // 128
    ups = "\n    ".join("crate::classic::crypto_hash::crypto_hash_sha512_update(&mut st, &m[%d..%d]);" % ab for ab in offsets(shape))
    return rs.hdr(("barrier", "fmt"), extra=c07.SC_STUB) + r'''
fn %(name)s() {
    let m: [u8; %(mlen)d] = kani::any();
    wit!(W_0, &m[..if %(mlen)d < 160 { %(mlen)d } else { 160 }]);
    let mut st = crate::classic::crypto_hash::crypto_hash_sha512_init();
    %(ups)s
    let mut out = [0u8; 64];
    crate::classic::crypto_hash::crypto_hash_sha512_final(st, &mut out);
    kani::cover!(true, "returned");
    unsafe {
        assert!(SCS.n == %(nb)d, "SHA_BLOCK_COUNT: the padded concatenated message is %(nb)d block(s)");
        let mut b = 0; let mut pos = 0usize;
        while b < %(nb)d {
            if b == 0 { assert!(SCS.sin[0] == SHA512_IV, "SHA_CHAIN: starts from the IV"); } else { assert!(SCS.sin[b] == SCS.sout[b - 1], "SHA_CHAIN: blocks are chained in order"); }
            let mut i = 0;
            while i < 128 { let mb = if pos < %(mlen)d { m[pos] } else { 0 }; assert!(SCS.blk[b][i] == sha_padded_byte(pos, %(mlen)d, %(padded)d, mb), "SHA_INPUT: the hashed stream is the concatenation of the update pieces, SHA-512 padded"); pos += 1; i += 1; }
            b += 1;
        }
        let d = be_bytes(&SCS.sout[%(nb)d - 1]);
        let mut i = 0; while i < 64 { assert!(out[i] == d[i], "SHA_OUTPUT: the digest is the final chaining value"); i += 1; }
    }
}
''' % dict(name=name, mlen=mlen, padded=padded, nb=nb, ups=ups)


def shp(shape):
    return "_".join(str(x) for x in shape)


def suites(tier, seed):
    rnd = random.Random(3000 + seed)
    src = rs.prelude() + rs.load("aead.rs") + c07.BODY
    hs = []
    # ---- BLAKE2b (block 128): (shape, outlen, keylen, object API?)
    b2 = [((0, 0), 32, 0, False), ((5, 0), 32, 0, False), ((127, 1), 32, 0, False), ((128, 1), 64, 0, False), ((1, 128), 16, 0, False), ((100, 100), 32, 32, False),
          ((128, 50, 100), 32, 0, False), ((64, 64, 135), 32, 0, False), ((127, 2, 127), 32, 0, True), ((128, 128, 1), 32, 0, False)]
    if tier != "quick":
        b2 += [((0, 128, 0), 32, 0, False), ((129, 127), 32, 0, False), ((256, 1), 33, 16, False), ((1, 127, 128), 32, 0, True), ((28, 100, 1), 32, 32, True),
               ((128, 0, 128), 32, 0, False), ((255, 1, 1), 32, 0, False), ((3, 125, 128), 48, 64, False), ((128, 1, 127), 32, 0, False), ((64, 192, 1), 32, 0, False)]
        for _ in range(8):
            a = rnd.choice([0, 1, 63, 64, 127, 128, 129]); b = rnd.choice([0, 1, 127, 128, 129, 200]); c = rnd.choice([0, 1, 100, 128])
            b2.append(((a, b, c), 32, rnd.choice([0, 32]), rnd.choice([True, False])))
    seen = set()
    for (shape, ol, kl, obj) in b2:
        n = "c08_blake2b_%s_o%d_k%d%s" % (shp(shape), ol, kl, "_obj" if obj else "")
        if n in seen:
            continue
        seen.add(n)
        src += c07.h_generichash(n, sum(shape), ol, kl, call=b2_call(shape, ol, kl, obj))
        hs.append(Harness(n, unwind=max(260, sum(shape) + 10), timeout=2400, site="generichash incremental" + (" (object)" if obj else ""),
                          desc="BLAKE2b fed as pieces %s (digest %d, key %d): compress transcript == that of the concatenated message" % (list(shape), ol, kl), bounds={"pieces": list(shape), "outlen": ol, "keylen": kl}))
    # ---- Poly1305 (block 16): all 2-way splits of the boundary lengths + 3-way shapes
    pl = []
    for L in ([16, 17, 32, 33] if tier == "quick" else [0, 1, 15, 16, 17, 31, 32, 33, 34, 48]):
        for a in range(0, L + 1):
            pl.append(((a, L - a), False))
    pl += [((5, 11, 0), False), ((35, 5, 8), False), ((16, 16, 16), False), ((1, 15, 1), True), ((7, 9, 16), True), ((0, 16, 1), False)]
    if tier != "quick":
        for a, b, c in itertools.product([0, 1, 15, 16, 17], repeat=3):
            pl.append(((a, b, c), False))
    seen = set()
    for (shape, obj) in pl:
        n = "c08_poly1305_%s%s" % (shp(shape), "_obj" if obj else "")
        if n in seen:
            continue
        seen.add(n)
        src += c07.h_poly(n, sum(shape), "oneshot", call=poly_call(shape, obj))
        hs.append(Harness(n, unwind=max(40, sum(shape) + 10), timeout=1200, site="onetimeauth incremental" + (" (object)" if obj else ""),
                          desc="Poly1305 fed as pieces %s: blocks() transcript == that of the concatenated message" % (list(shape),), bounds={"pieces": list(shape)}))
    # ---- HMAC and SHA-512 (sha2's own buffering; dryoc forwards the pieces)
    for shape in ([(3, 2), (40, 9, 0)] if tier == "quick" else [(3, 2), (40, 9, 0), (100, 12, 0), (0, 0), (111, 1), (128, 1), (1, 127)]):
        n = "c08_hmac_%s" % shp(shape)
        src += c07.h_hmac(n, sum(shape), call=hmac_call(shape))
        hs.append(Harness(n, unwind=max(132, sum(shape) + 10), timeout=3000, mem_gb=(28 if sum(shape) >= 112 else 12), site="crypto_auth incremental", desc="HMAC-SHA-512-256 fed as pieces %s" % (list(shape),), bounds={"pieces": list(shape)}))
    for shape in ([(0, 0), (5, 0, 7), (111, 1, 16)] if tier == "quick" else [(0, 0), (5, 0, 7), (111, 1, 16), (128, 1), (127, 1, 0), (1, 1, 1), (112, 16)]):
        n = "c08_sha512_%s" % shp(shape)
        src += h_sha512(n, shape)
        hs.append(Harness(n, unwind=max(132, sum(shape) + 10), timeout=2400, site="crypto_hash_sha512 incremental", desc="SHA-512 fed as pieces %s: compress512 transcript == padded concatenation" % (list(shape),), bounds={"pieces": list(shape)}))
    return [Suite("C08", src, hs, stubs=rs.stub_names(("barrier", "fmt", "b2compress"), extra=c07.PB_STUB + c07.SC_STUB),
                  functions=["blake2b::blake2b_soft::State::{update,finalize}", "classic::crypto_generichash::{init,update,final}", "generichash::GenericHash::{new,update,finalize}",
                             "poly1305::poly1305_soft::Poly1305::{update,finalize}", "classic::crypto_onetimeauth::{init,update,final}", "onetimeauth::OnetimeAuth::{new,update,finalize}",
                             "classic::crypto_auth::{init,update,final}", "classic::crypto_hash::{sha512_init,update,final}"],
                  assumptions=ASSUMPTIONS)]


def replay(v, scratch):
    """Native replay: feed a message in the harness's pieces and compare with the one-shot result (both computed by the real build)."""
    import re
    h = v["harness"]
    m = re.match(r"c08_(blake2b|poly1305|hmac|sha512)_([0-9_]+?)(?:_o(\d+)_k(\d+))?(_obj)?$", h)
    if not m:
        return None, "no replay template"
    kind, shape_s, ol, kl, obj = m.groups()
    shape = [int(x) for x in shape_s.split("_") if x != ""]
    L = sum(shape)
    w = (v.get("witness", {}).get("W_0") or [])
    msg = (w[:L] + [(i * 89 + 7) & 0xff for i in range(L)])[:L]
    offs = offsets(shape)
    if kind == "blake2b":
        ol = int(ol); kl = int(kl)
        keyexpr = "Some(&key[..%d])" % kl if kl else "None"
        ups = " ".join("crypto_generichash_update(&mut st, &m[%d..%d]);" % ab for ab in offs)
        body = ("let mut a = vec![0u8; %d]; let mut b = vec![0u8; %d]; crypto_generichash(&mut a, &m, %s).unwrap(); "
                "let mut st = crypto_generichash_init(%s, %d).unwrap(); %s crypto_generichash_final(st, &mut b).unwrap();") % (ol, ol, keyexpr, keyexpr, ol, ups)
    elif kind == "poly1305":
        ups = " ".join("crypto_onetimeauth_update(&mut st, &m[%d..%d]);" % ab for ab in offs)
        body = "let mut a = [0u8; 16]; let mut b = [0u8; 16]; crypto_onetimeauth(&mut a, &m, &k32); let mut st = crypto_onetimeauth_init(&k32); %s crypto_onetimeauth_final(st, &mut b);" % ups
    elif kind == "hmac":
        ups = " ".join("crypto_auth_update(&mut st, &m[%d..%d]);" % ab for ab in offs)
        body = "let mut a = [0u8; 32]; let mut b = [0u8; 32]; crypto_auth(&mut a, &m, &k32); let mut st = crypto_auth_init(&k32); %s crypto_auth_final(st, &mut b);" % ups
    else:
        ups = " ".join("crypto_hash_sha512_update(&mut st, &m[%d..%d]);" % ab for ab in offs)
        body = "let mut a = [0u8; 64]; let mut b = [0u8; 64]; crypto_hash_sha512(&mut a, &m); let mut st = crypto_hash_sha512_init(); %s crypto_hash_sha512_final(st, &mut b);" % ups
    main = r'''
use dryoc::classic::crypto_generichash::*; use dryoc::classic::crypto_onetimeauth::*; use dryoc::classic::crypto_auth::*; use dryoc::classic::crypto_hash::*;
fn main() {
    let m: Vec<u8> = vec!%s; let key: [u8; 64] = [0x42; 64]; let mut k32 = [0u8; 32]; k32.copy_from_slice(&key[..32]);
    %s
    if a[..] != b[..] { println!("MISMATCH incremental %s != one-shot"); std::process::exit(1); }
    println!("agree");
}
''' % (runner.rust_bytes(msg), body, shape)
    outs = runner.native_run(scratch, "c08", main)
    v["replay_input"] = {"pieces": shape, "program": main[:3000]}
    return any(rc == 1 and "MISMATCH" in o for _, rc, o in outs), "; ".join("%s rc=%s %s" % (p, rc, o.strip()[-300:]) for p, rc, o in outs)
