"""Native replay of a ghost-kernel counterexample (C14/C15/C19): the same typed
operation sequence is regenerated with real page-size lengths and run against the
real build; page rights / lock flags come from /proc/self/smaps, VmLck from
/proc/self/status, and frees are observed by an LD_PRELOAD interposer."""
import os
import subprocess

from vlib import runner
from vlib.engine import VERIF
from props import pmem


def build_interposer(scratch):
    so = os.path.join(scratch.dir, "interpose.so")
    if not os.path.exists(so):
        subprocess.run(["cc", "-shared", "-fPIC", "-O1", "-o", so, os.path.join(VERIF, "replay", "interpose.c"), "-ldl"], check=True)
    return so


def pmem_replay(v, scratch):
    h = v["harness"]
    mode = h.split("_")[0]
    # recover (ctor, len, seq) from the harness name
    rest = h[len(mode) + 1:]
    ck = next(k for ks in pmem.CTORS.values() for k in sorted(ks, key=len, reverse=True) if rest.startswith(k + "_l"))
    container = "hb" if ck.startswith("hb_") else "hba"
    tail = rest[len(ck) + 2:]
    ln_s, _, seq_s = tail.partition("_")
    ln = int(ln_s)
    kk = None
    if mode == "c19":
        seq_s, _, ks = seq_s.rpartition("_k")
        kk = int(ks)
    seq = [] if seq_s in ("", "drop") else seq_s.split("_")
    g = pmem.gen_program(mode, container, ck, ln, seq, pmem.STUBS, native=True, k=kk)
    name, text = g
    w = v.get("witness", {})
    src = w.get("W_0") or []
    src = src[:ln] if src else []
    if not any(src):
        src = [0x5a] * max(ln, 1)
    k = kk if kk is not None else (w.get("W_1") or [0])[0]
    native = open(os.path.join(VERIF, "replay", "pmem_native.rs")).read()
    main = native + """
const WSRC: &[u8] = &%s;
fn wsrc<const N: usize>() -> [u8; N] { let mut a = [0u8; N]; for i in 0..N { a[i] = WSRC[i %% WSRC.len()]; } a }
%s
fn main() {
    %s();
    if unsafe { MISMATCHES } != 0 { std::process::exit(1); }
    println!("agree");
}
""" % (runner.rust_bytes(src), text, name)
    so = build_interposer(scratch)
    env = {"LD_PRELOAD": so}
    if mode == "c19":
        env["VERIF_MLOCK_FAIL_FROM"] = str(k)
    outs = runner.native_run(scratch, "pmem", main, features=["nightly"], nightly=True, extra_deps='libc = "0.2"\n', env_extra=None,
                             run_env=env)
    v["replay_input"] = {"ctor": ck, "ghost_len": ln, "ops": seq, "src": src, "mlock_fail_from": k if mode == "c19" else None, "program": main}
    role = v["role"]
    detail = "; ".join("%s rc=%s %s" % (p, rc, o.strip()[-300:]) for p, rc, o in outs)
    # a correct build prints "agree"; the process dying (panic 101, abort 134, fault signal) is itself the
    # native manifestation of a protected-memory violation (e.g. wiping a region left read-only -> SIGSEGV)
    died = any(rc == 101 or (rc < 0 and rc not in (-9, -100)) or rc == 134 for _, rc, _ in outs)
    if "@" in role:   # a panic / arithmetic failure inside dryoc
        repro = died
    else:
        repro = died or any(rc == 1 and ("MISMATCH " + role) in o for _, rc, o in outs)
    return repro, detail
