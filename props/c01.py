"""C01 - authenticated encryption round-trips and is byte-compatible with libsodium.

Decomposition (DESIGN.md 5/C01):
 1 secretbox core == NaCl construction at literal (key, nonce) instances with a SYMBOLIC message: c[i] = m[i] ^ KS[32+i],
   one-time MAC key = KS[0..32], MAC input = exactly c, tag = the MAC's output (KS from the harness's own XSalsa20);
 2 layouts: easy = tag || c, easy_inplace == easy, box forms == secretbox with the key HSalsa20(X25519(sk, pk), 0),
   sealed = epk || tag || c with epk = base(esk), nonce derived from (epk, rpk), DH with (esk, rpk); object API (Vec and
   stack containers) == classic bytes;
 3 sealed-box nonce = BLAKE2b-24(epk || rpk) via the compress transcript;
 4 round trip: open(seal(m)) == m for every form (ideal MAC made functional: the same symbolic tag on both sides);
 5 kernels: HSalsa20 and Poly1305 themselves are C07's MIR->SMT obligations."""
import random

from vlib.engine import Harness, Suite
from vlib import rs, runner
from props import aead

ASSUMPTIONS = [
    "libsodium's constructions are the NaCl ones transcribed in the harness (crypto_secretbox_xsalsa20poly1305, crypto_box_curve25519xsalsa20poly1305, crypto_box_seal); "
    "the transcriptions of Salsa20 / HSalsa20 are confirmed against the real code at the literal keys and, natively, against libsodium",
    "Poly1305 == spec and HSalsa20 == spec for all inputs: C07; X25519 and BLAKE2b compress: trusted base / C07",
    "keystream-value equalities are decided at literal (key, nonce) instances (the RustCrypto salsa20 crate cannot be stubbed or compared symbolically)",
]
OUTSIDE = ["message lengths beyond the listed literals (in particular multi-KiB messages: no length-dependent dryoc code beyond the trusted cipher's and the proved Poly1305 block loop - stated, not proved)",
           "keystream-value facts at keys other than the literal instances", "heap / locked containers"]


def lit(b):
    return "[" + ", ".join(str(x) for x in b) + "]"


def h_secretbox_literal(name, key, nonce, n):
    return rs.hdr(("barrier", "fmt") + rs.MAC) + r'''
fn %(name)s() {
    let key: [u8; 32] = %(k)s; let nonce: [u8; 24] = %(n)s;
    let m: [u8; %(len)d] = kani::any();
    wit!(W_2, &m);
    let tagv: [u8; 16] = kani::any();
    unsafe { let mut j = 0; while j < MAC_INST { AES.mac_out[j] = tagv; j += 1; } }
    let ks0 = xsalsa20_block_spec(&key, &nonce, 0); let ks1 = xsalsa20_block_spec(&key, &nonce, 1);
    // detached
    let mut c = [0u8; %(len)d]; let mut tag = [0u8; 16];
    crypto_secretbox_detached(&mut c, &mut tag, &m, &nonce, &key);
    kani::cover!(true, "encrypted");
    unsafe {
        let mut i = 0; while i < 32 { assert!(AES.mac_key[0][i] == ks0[i], "NACL_MAC_KEY: the one-time MAC key is keystream bytes 0..32"); i += 1; }
        assert!(AES.mac_len[0] == %(len)d, "NACL_MAC_INPUT: the MAC is computed over exactly the ciphertext");
        i = 0; while i < %(len)d { assert!(AES.mac_stream[0][i] == c[i], "NACL_MAC_INPUT: the MAC is computed over exactly the ciphertext"); i += 1; }
    }
    assert!(tag == tagv, "NACL_TAG: the tag is the MAC's output");
    let mut i = 0;
    while i < %(len)d { let ks = if i < 32 { ks0[32 + i] } else if i < 96 { ks1[i - 32] } else { 0 }; assert!(c[i] == (m[i] ^ ks), "NACL_CIPHERTEXT: c[i] = m[i] xor keystream byte 32 + i"); i += 1; }
    // combined form == tag || c ; in-place form == combined form
    let mut easy = [0u8; %(len)d + 16];
    assert!(crypto_secretbox_easy(&mut easy, &m, &nonce, &key).is_ok(), "EASY_OK");
    i = 0; while i < 16 { assert!(easy[i] == tag[i], "EASY_LAYOUT: combined form = tag || ciphertext"); i += 1; }
    i = 0; while i < %(len)d { assert!(easy[16 + i] == c[i], "EASY_LAYOUT: combined form = tag || ciphertext"); i += 1; }
    let mut inpl = [0u8; %(len)d + 16];
    i = 0; while i < %(len)d { inpl[i] = m[i]; i += 1; }
    assert!(crypto_secretbox_easy_inplace(&mut inpl, &nonce, &key).is_ok(), "INPLACE_OK");
    assert!(inpl == easy, "INPLACE_EQUALS_EASY: the in-place form produces the same bytes as the combined form");
    // round trips (the ideal MAC returns the same tag when recomputed over the same ciphertext)
    let mut back = [0u8; %(len)d];
    assert!(crypto_secretbox_open_easy(&mut back, &easy, &nonce, &key).is_ok(), "ROUNDTRIP_OK: the matching open call accepts");
    assert!(back == m, "ROUNDTRIP: open(seal(m)) == m");
}
''' % dict(name=name, k=lit(key), n=lit(nonce), len=n)


def h_box_literal(name, pk, sk, q, nonce, n, part="easy"):
    """part: easy (box == secretbox under the DH key, afternm form) | object (DryocBox bytes == classic bytes) |
    roundtrip (open(box(m)) == m). Split because three to four cipher runs in one program exhaust memory."""
    head = r'''
fn %(name)s() {
    let pk: [u8; 32] = %(pk)s; let sk: [u8; 32] = %(sk)s; let nonce: [u8; 24] = %(n)s; let q: [u8; 32] = %(q)s;
    unsafe { AES.sm_fixed = true; AES.sm_fixed_out = q; }
    let m: [u8; %(len)d] = kani::any();
    wit!(W_2, &m);
    let tagv: [u8; 16] = kani::any();
    unsafe { let mut j = 0; while j < MAC_INST { AES.mac_out[j] = tagv; j += 1; } }
    let mut got = [0u8; %(len)d + 16];
    assert!(crypto_box_easy(&mut got, &m, &nonce, &pk, &sk).is_ok(), "BOX_OK");
    kani::cover!(true, "encrypted");
    unsafe { assert!(AES.sm_n == 1 && AES.sm_scalar[0] == sk && AES.sm_point[0] == pk, "BOX_DH_INPUTS: X25519(sender secret, recipient public)"); }
'''
    if part == "easy":
        body = r'''
    let bk = hsalsa20_spec(&q, &[0u8; 16]);
    let mut want = [0u8; %(len)d + 16];
    assert!(crypto_secretbox_easy(&mut want, &m, &nonce, &bk).is_ok(), "EASY_OK");
    assert!(got == want, "BOX_IS_SECRETBOX_UNDER_DH_KEY: crypto_box == crypto_secretbox under HSalsa20(X25519(sk, pk), 0^16)");
    let mut c2 = [0u8; %(len)d]; let mut t2 = [0u8; 16];
    crypto_box_detached_afternm(&mut c2, &mut t2, &m, &nonce, &bk);
    let mut i = 0; while i < 16 { assert!(t2[i] == want[i], "AFTERNM_EQUALS_BOX: the precomputed-key form produces the same bytes"); i += 1; }
    i = 0; while i < %(len)d { assert!(c2[i] == want[16 + i], "AFTERNM_EQUALS_BOX: the precomputed-key form produces the same bytes"); i += 1; }
}
'''
    elif part == "object":
        body = r'''
    // object API (Vec container) produces the classic bytes
    let ob: crate::dryocbox::VecBox = crate::dryocbox::DryocBox::encrypt_to_vecbox(&m[..], &StackByteArray::<24>::from(nonce), &StackByteArray::<32>::from(pk), &StackByteArray::<32>::from(sk)).unwrap();
    let obytes = ob.to_vec();
    assert!(obytes.len() == %(len)d + 16, "OBJECT_EQUALS_CLASSIC");
    let mut i = 0; while i < %(len)d + 16 { assert!(obytes[i] == got[i], "OBJECT_EQUALS_CLASSIC: DryocBox::encrypt + to_vec == crypto_box_easy bytes"); i += 1; }
    unsafe { assert!(AES.sm_n == 2 && AES.sm_scalar[1] == sk && AES.sm_point[1] == pk, "BOX_DH_INPUTS: the object API uses the same DH operands"); }
}
'''
    else:
        body = r'''
    let mut back = [0u8; %(len)d];
    assert!(crypto_box_open_easy(&mut back, &got, &nonce, &pk, &sk).is_ok(), "ROUNDTRIP_OK: the matching open call accepts");
    assert!(back == m, "ROUNDTRIP: open(seal(m)) == m");
    unsafe { assert!(AES.sm_n == 2 && AES.sm_scalar[1] == sk && AES.sm_point[1] == pk, "BOX_DH_INPUTS: the open call uses the same DH operands"); }
}
'''
    return rs.hdr(("barrier", "fmt") + rs.MAC + ("scalarmult",)) + (head + body) % dict(name=name, pk=lit(pk), sk=lit(sk), q=lit(q), n=lit(nonce), len=n)


def h_object_secretbox(name, key, nonce, n):
    return rs.hdr(("barrier", "fmt") + rs.MAC) + r'''
fn %(name)s() {
    use crate::dryocsecretbox::*;
    let key: [u8; 32] = %(k)s; let nonce: [u8; 24] = %(n)s;
    let m: [u8; %(len)d] = kani::any();
    let tagv: [u8; 16] = kani::any();
    unsafe { let mut j = 0; while j < MAC_INST { AES.mac_out[j] = tagv; j += 1; } }
    let mut want = [0u8; %(len)d + 16];
    assert!(crypto_secretbox_easy(&mut want, &m, &nonce, &key).is_ok(), "EASY_OK");
    let b: VecBox = DryocSecretBox::encrypt_to_vecbox(&m[..], &StackByteArray::<24>::from(nonce), &StackByteArray::<32>::from(key));
    let bytes = b.to_vec();
    kani::cover!(true, "encrypted");
    assert!(bytes.len() == %(len)d + 16, "OBJECT_EQUALS_CLASSIC");
    let mut i = 0; while i < %(len)d + 16 { assert!(bytes[i] == want[i], "OBJECT_EQUALS_CLASSIC: DryocSecretBox::encrypt + to_vec == crypto_secretbox_easy bytes"); i += 1; }
    let back = b.decrypt_to_vec(&StackByteArray::<24>::from(nonce), &StackByteArray::<32>::from(key));
    assert!(back.is_ok(), "ROUNDTRIP_OK: the matching decrypt call accepts");
    let back = back.unwrap();
    assert!(back.len() == %(len)d, "ROUNDTRIP");
    i = 0; while i < %(len)d { assert!(back[i] == m[i], "ROUNDTRIP: decrypt(encrypt(m)) == m"); i += 1; }
    // stack-array message container gives the same bytes
    let b2: DryocSecretBox<Mac, Vec<u8>> = DryocSecretBox::encrypt(&StackByteArray::<%(len)d>::from(m), &nonce, &key);
    let bytes2 = b2.to_vec();
    i = 0; while i < %(len)d + 16 { assert!(bytes2[i] == want[i], "CONTAINER_INDEPENDENT: stack and Vec containers yield identical bytes"); i += 1; }
}
''' % dict(name=name, k=lit(key), n=lit(nonce), len=n)


H_SEAL = r'''
fn c01_seal_layout_n%(len)d() {
    let rpk: [u8; 32] = kani::any(); let m: [u8; %(len)d] = kani::any();
    let tagv: [u8; 16] = kani::any(); unsafe { AES.mac_out[0] = tagv; }
    let mut c = [0u8; %(len)d + 48];
    let r = crypto_box_seal(&mut c, &m, &rpk);
    kani::cover!(r.is_ok(), "sealed");
    assert!(r.is_ok(), "SEAL_OK");
    unsafe {
        assert!(AES.smb_n == 1 && is_rng_output(0, &AES.smb_scalar[0][..]), "SEAL_EPHEMERAL: a fresh ephemeral secret is drawn (see C11)");
        let mut i = 0; while i < 32 { assert!(c[i] == AES.smb_out[0][i], "SEAL_LAYOUT: the sealed box starts with the ephemeral public key"); i += 1; }
        assert!(AES.sn_n == 1 && AES.sn_epk == AES.smb_out[0] && AES.sn_rpk == rpk, "SEAL_NONCE_INPUTS: nonce = H(epk, recipient pk)");
        assert!(AES.sm_n == 1 && AES.sm_scalar[0] == AES.smb_scalar[0] && AES.sm_point[0] == rpk, "SEAL_DH_INPUTS: X25519(ephemeral secret, recipient pk)");
        i = 0; while i < 16 { assert!(c[32 + i] == tagv[i], "SEAL_LAYOUT: then the tag"); i += 1; }
        assert!(AES.mac_len[0] == %(len)d, "SEAL_LAYOUT: then the ciphertext (the MAC covers exactly it)");
        i = 0; while i < %(len)d { assert!(AES.mac_stream[0][i] == c[48 + i], "SEAL_LAYOUT: then the ciphertext (the MAC covers exactly it)"); i += 1; }
    }
}
'''

H_SEAL_NONCE = r'''
fn c01_seal_nonce() {
    let epk: [u8; 32] = kani::any(); let rpk: [u8; 32] = kani::any();
    let mut nonce = [0u8; 24];
    crate::classic::crypto_box::crypto_box_seal_nonce(&mut nonce, &epk, &rpk);
    kani::cover!(true, "returned");
    unsafe {
        assert!(B2S.b2_n == 1 && B2S.b2_hin[0] == b2_h0(24, 0, &[0u8; 16], &[0u8; 16]), "SEAL_NONCE_HASH: unkeyed BLAKE2b with a 24-byte digest");
        assert!(B2S.b2_t[0][0] == 64 && B2S.b2_t[0][1] == 0 && B2S.b2_f[0][0] == u64::MAX && B2S.b2_f[0][1] == 0, "SEAL_NONCE_HASH: one final block of 64 bytes");
        let mut i = 0; while i < 128 { let w = if i < 32 { epk[i] } else if i < 64 { rpk[i - 32] } else { 0 }; assert!(B2S.b2_blk[0][i] == w, "SEAL_NONCE_INPUT: the hash input is epk || recipient pk"); i += 1; }
        let o = b2_out_bytes(&B2S.b2_hout[0]);
        i = 0; while i < 24 { assert!(nonce[i] == o[i], "SEAL_NONCE_OUTPUT: nonce = first 24 digest bytes"); i += 1; }
    }
}
'''

RNG_STUB = [("<rand_core::OsRng as rand_core::TryRngCore>::try_fill_bytes", "rng_oracle_stub")]


def suites(tier, seed):
    rnd = random.Random(4000 + seed)
    src = rs.prelude() + rs.load("aead.rs") + rs.load("salsa.rs") + rs.load("rng.rs") + aead.USES
    hs = []
    K = 1 if tier == "quick" else 3
    for i in range(K):
        key = [rnd.randrange(256) for _ in range(32)]; nonce = [rnd.randrange(256) for _ in range(24)]
        for n in ([5, 40] if tier == "quick" else [0, 1, 5, 31, 32, 33, 40, 80]):
            name = "c01_secretbox_literal_k%d_n%d" % (i, n)
            src += h_secretbox_literal(name, key, nonce, n)
            hs.append(Harness(name, unwind=max(70, n + 30), timeout=2400, site="secretbox (literal key)",
                              desc="NaCl secretbox construction, all layouts and round trip at a literal (key, nonce), symbolic %d-byte message" % n, bounds={"message_len": n, "key": "literal (seeded)"}))
        pk = [rnd.randrange(256) for _ in range(32)]; sk = [rnd.randrange(256) for _ in range(32)]; q = [rnd.randrange(256) for _ in range(32)]
        for n in ([5] if tier == "quick" else [0, 5, 33]):
            for part, what in (("easy", "crypto_box == secretbox under HSalsa20(X25519, 0); afternm form produces the same bytes"),
                               ("object", "DryocBox::encrypt + to_vec == crypto_box_easy bytes"), ("roundtrip", "open(box(m)) == m")):
                name = "c01_box_literal_%s_k%d_n%d" % (part, i, n)
                src += h_box_literal(name, pk, sk, q, nonce, n, part)
                hs.append(Harness(name, unwind=max(70, n + 30), timeout=2400, mem_gb=16, site="box (literal keys):" + part,
                                  desc="%s; literal keys and shared secret, symbolic %d-byte message" % (what, n), bounds={"message_len": n}))
            name = "c01_object_secretbox_k%d_n%d" % (i, n)
            src += h_object_secretbox(name, key, nonce, n)
            hs.append(Harness(name, unwind=max(70, n + 30), timeout=2400, site="DryocSecretBox (literal key)",
                              desc="object API (Vec and stack containers) == classic bytes; round trip; symbolic %d-byte message" % n, bounds={"message_len": n}))
    for n in ([0, 17] if tier == "quick" else [0, 1, 17, 40]):
        src += rs.hdr(("barrier", "fmt") + rs.MAC + ("scalarmult", "scalarmult_base", "seal_nonce"), extra=RNG_STUB) + H_SEAL % dict(len=n)
        hs.append(Harness("c01_seal_layout_n%d" % n, unwind=max(70, n + 60), timeout=2400, site="crypto_box_seal",
                          desc="sealed box layout and key/nonce derivation inputs, fully symbolic (recipient key, message, RNG output)", bounds={"message_len": n}))
    src += rs.hdr(("barrier", "fmt", "b2compress")) + H_SEAL_NONCE
    hs.append(Harness("c01_seal_nonce", unwind=132, timeout=1800, site="crypto_box_seal_nonce", desc="sealed-box nonce = BLAKE2b-24(epk || rpk): compress transcript, symbolic keys", bounds={}))
    return [Suite("C01", src, hs, stubs=rs.stub_names(("barrier", "fmt", "b2compress") + rs.MAC + ("scalarmult", "scalarmult_base", "seal_nonce"), extra=RNG_STUB),
                  functions=["classic::crypto_secretbox_impl::*", "classic::crypto_secretbox::{detached,easy,easy_inplace,open_easy}", "classic::crypto_box::{easy,detached_afternm,open_easy,seal,seal_nonce,beforenm}",
                             "classic::crypto_core::crypto_core_hsalsa20", "dryocsecretbox::DryocSecretBox::{encrypt,to_bytes,decrypt}", "dryocbox::DryocBox::{encrypt,to_bytes}"],
                  assumptions=ASSUMPTIONS)]


def replay(v, scratch):
    """native differential run against libsodium over message lengths 0..=300 and all forms"""
    main = r'''
extern crate libsodium_sys;
use dryoc::classic::crypto_secretbox::*; use dryoc::classic::crypto_box::*;
fn main() {
    let mut bad = false;
    let key = [0x11u8; 32]; let nonce = [0x22u8; 24];
    let (pk, sk) = crypto_box_seed_keypair(b"replay seed A"); let (pk2, sk2) = crypto_box_seed_keypair(b"replay seed B");
    let data: Vec<u8> = (0..400u32).map(|i| (i.wrapping_mul(2246822519) >> 11) as u8).collect();
    for n in 0..=300usize {
        let m = &data[..n];
        let mut a = vec![0u8; n + 16]; let mut b = vec![0u8; n + 16];
        crypto_secretbox_easy(&mut a, m, &nonce, &key).unwrap();
        unsafe { libsodium_sys::crypto_secretbox_easy(b.as_mut_ptr(), m.as_ptr(), n as u64, nonce.as_ptr(), key.as_ptr()); }
        if a != b { println!("MISMATCH secretbox_easy len {}", n); bad = true; }
        let mut ip = m.to_vec(); ip.resize(n + 16, 0); crypto_secretbox_easy_inplace(&mut ip, &nonce, &key).unwrap();
        if ip != b { println!("MISMATCH secretbox_easy_inplace len {}", n); bad = true; }
        let mut back = vec![0u8; n];
        if crypto_secretbox_open_easy(&mut back, &b, &nonce, &key).is_err() || back != m { println!("MISMATCH secretbox open of libsodium ciphertext len {}", n); bad = true; }
        let mut c = vec![0u8; n + 16]; let mut d = vec![0u8; n + 16];
        crypto_box_easy(&mut c, m, &nonce, &pk2, &sk).unwrap();
        unsafe { libsodium_sys::crypto_box_easy(d.as_mut_ptr(), m.as_ptr(), n as u64, nonce.as_ptr(), pk2.as_ptr(), sk.as_ptr()); }
        if c != d { println!("MISMATCH box_easy len {}", n); bad = true; }
        let mut s = vec![0u8; n + 48];
        crypto_box_seal(&mut s, m, &pk2).unwrap();
        let mut o = vec![0u8; n];
        if unsafe { libsodium_sys::crypto_box_seal_open(o.as_mut_ptr(), s.as_ptr(), s.len() as u64, pk2.as_ptr(), sk2.as_ptr()) } != 0 || o != m { println!("MISMATCH libsodium cannot open dryoc sealed box len {}", n); bad = true; }
        if bad { break; }
    }
    if bad { std::process::exit(1); }
    println!("agree");
}
'''
    outs = runner.native_run(scratch, "c01", main, extra_deps='libsodium-sys = "0.2"\n')
    v["replay_input"] = {"program": main}
    return any(rc == 1 and "MISMATCH" in o for _, rc, o in outs), "; ".join("%s rc=%s %s" % (p, rc, o.strip()[-300:]) for p, rc, o in outs)
