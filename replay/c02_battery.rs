// Native confirmation step for C02 counterexamples: ciphertexts produced by libsodium, tampered in every single bit (and
// truncated / extended), opened with dryoc. A tampered input that dryoc accepts, or an untampered one it rejects, is a
// MISMATCH. Constructions: secretbox, box, sealed box (incl. every bit of the ephemeral key), secretstream (header-derived
// state, every bit of ciphertext and associated data, AD lengths across the 16-byte padding boundary).
#![allow(unused, dead_code)]
extern crate libsodium_sys;
use dryoc::classic::crypto_box::*;
use dryoc::classic::crypto_secretbox::*;
use dryoc::classic::crypto_secretstream_xchacha20poly1305::*;
use libsodium_sys as so;

fn pat(n: usize, s: u8) -> Vec<u8> { (0..n).map(|i| (i as u8).wrapping_mul(37).wrapping_add(s)).collect() }

fn main() {
    let mut bad = 0u32;
    let mut say = |s: String, bad: &mut u32| { if *bad < 12 { println!("{}", s); } *bad += 1; };
    let key = [3u8; 32]; let nonce = [9u8; 24];
    // key pairs from libsodium
    let mut apk = [0u8; 32]; let mut ask = [0u8; 32]; let mut bpk = [0u8; 32]; let mut bsk = [0u8; 32];
    unsafe { so::crypto_box_seed_keypair(apk.as_mut_ptr(), ask.as_mut_ptr(), [1u8; 32].as_ptr()); so::crypto_box_seed_keypair(bpk.as_mut_ptr(), bsk.as_mut_ptr(), [2u8; 32].as_ptr()); }
    for mlen in [0usize, 1, 15, 16, 17, 33, 64, 65] {
        let m = pat(mlen, 5);
        // ---- secretbox
        let mut c = vec![0u8; mlen + 16];
        unsafe { so::crypto_secretbox_easy(c.as_mut_ptr(), m.as_ptr(), mlen as u64, nonce.as_ptr(), key.as_ptr()); }
        let mut out = vec![0u8; mlen];
        if crypto_secretbox_open_easy(&mut out, &c, &nonce, &key).is_err() || out != m { say(format!("MISMATCH VERDICT secretbox: untampered libsodium box rejected (mlen {})", mlen), &mut bad); }
        for bit in 0..c.len() * 8 {
            let mut t = c.clone(); t[bit / 8] ^= 1 << (bit % 8);
            let mut out = vec![0u8; mlen];
            if crypto_secretbox_open_easy(&mut out, &t, &nonce, &key).is_ok() { say(format!("MISMATCH VERDICT secretbox: flip of bit {} accepted (mlen {})", bit, mlen), &mut bad); }
        }
        for l in 16..c.len() {
            let mut out = vec![0u8; l - 16];
            if crypto_secretbox_open_easy(&mut out, &c[..l], &nonce, &key).is_ok() { say(format!("MISMATCH MAC_INPUT secretbox: truncation to {} accepted", l), &mut bad); }
        }
        for nb in 0..24 * 8 { let mut n2 = nonce; n2[nb / 8] ^= 1 << (nb % 8); let mut out = vec![0u8; mlen];
            if crypto_secretbox_open_easy(&mut out, &c, &n2, &key).is_ok() { say(format!("MISMATCH secretbox: wrong nonce (bit {}) accepted", nb), &mut bad); } }
        // ---- box
        let mut c = vec![0u8; mlen + 16];
        unsafe { so::crypto_box_easy(c.as_mut_ptr(), m.as_ptr(), mlen as u64, nonce.as_ptr(), bpk.as_ptr(), ask.as_ptr()); }
        let mut out = vec![0u8; mlen];
        if crypto_box_open_easy(&mut out, &c, &nonce, &apk, &bsk).is_err() || out != m { say(format!("MISMATCH VERDICT box: untampered libsodium box rejected (mlen {})", mlen), &mut bad); }
        for bit in 0..c.len() * 8 {
            let mut t = c.clone(); t[bit / 8] ^= 1 << (bit % 8);
            let mut out = vec![0u8; mlen];
            if crypto_box_open_easy(&mut out, &t, &nonce, &apk, &bsk).is_ok() { say(format!("MISMATCH VERDICT box: flip of bit {} accepted (mlen {})", bit, mlen), &mut bad); }
        }
        // ---- sealed box
        let mut c = vec![0u8; mlen + 48];
        unsafe { so::crypto_box_seal(c.as_mut_ptr(), m.as_ptr(), mlen as u64, bpk.as_ptr()); }
        let mut out = vec![0u8; mlen];
        if crypto_box_seal_open(&mut out, &c, &bpk, &bsk).is_err() || out != m { say(format!("MISMATCH VERDICT seal: untampered libsodium sealed box rejected (mlen {})", mlen), &mut bad); }
        for bit in 0..c.len() * 8 {
            let mut t = c.clone(); t[bit / 8] ^= 1 << (bit % 8);
            let mut out = vec![0u8; mlen];
            let d = crypto_box_seal_open(&mut out, &t, &bpk, &bsk).is_ok();
            let mut o2 = vec![0u8; mlen];
            let s = unsafe { so::crypto_box_seal_open(o2.as_mut_ptr(), t.as_ptr(), t.len() as u64, bpk.as_ptr(), bsk.as_ptr()) == 0 };
            if d || d != s { say(format!("MISMATCH VERDICT seal: flip of bit {} (byte {}) dryoc ok={} libsodium ok={} (mlen {})", bit, bit / 8, d, s, mlen), &mut bad); }
        }
        // ---- secretstream
        for adlen in [0usize, 1, 15, 16, 17, 21, 32, 37] {
            let ad = pat(adlen, 11);
            let mut st = [0u8; 52]; let mut header = [0u8; 24];
            let mut c = vec![0u8; mlen + 17];
            unsafe {
                so::crypto_secretstream_xchacha20poly1305_init_push(st.as_mut_ptr() as *mut _, header.as_mut_ptr(), key.as_ptr());
                so::crypto_secretstream_xchacha20poly1305_push(st.as_mut_ptr() as *mut _, c.as_mut_ptr(), std::ptr::null_mut(), m.as_ptr(), mlen as u64, ad.as_ptr(), adlen as u64, 0);
            }
            let open = |c: &[u8], ad: &[u8]| -> Option<(Vec<u8>, u8)> {
                let mut s = State::new();
                crypto_secretstream_xchacha20poly1305_init_pull(&mut s, &header, &key);
                let mut out = vec![0u8; c.len().saturating_sub(17)]; let mut tag = 0xffu8;
                match crypto_secretstream_xchacha20poly1305_pull(&mut s, &mut out, &mut tag, c, if ad.is_empty() { None } else { Some(ad) }) { Ok(_) => Some((out, tag)), Err(_) => None }
            };
            match open(&c, &ad) { Some((o, t)) if o == m && t == 0 => {}, _ => say(format!("MISMATCH VERDICT stream: untampered libsodium message rejected (mlen {} adlen {})", mlen, adlen), &mut bad) }
            for bit in 0..c.len() * 8 { let mut t = c.clone(); t[bit / 8] ^= 1 << (bit % 8);
                if open(&t, &ad).is_some() { say(format!("MISMATCH VERDICT stream: ciphertext bit {} flip accepted (mlen {} adlen {})", bit, mlen, adlen), &mut bad); } }
            for bit in 0..adlen * 8 { let mut a2 = ad.clone(); a2[bit / 8] ^= 1 << (bit % 8);
                if open(&c, &a2).is_some() { say(format!("MISMATCH MAC_INPUT stream: associated-data bit {} flip accepted (mlen {} adlen {})", bit, mlen, adlen), &mut bad); } }
            if adlen > 0 { if open(&c, &ad[..adlen - 1]).is_some() { say(format!("MISMATCH MAC_INPUT stream: shortened AD accepted (adlen {})", adlen), &mut bad); } }
            for l in 17..c.len() { if open(&c[..l], &ad).is_some() { say(format!("MISMATCH MAC_INPUT stream: truncation to {} accepted", l), &mut bad); } }
        }
    }
    if bad > 0 { println!("{} mismatches", bad); std::process::exit(1); }
    println!("agree");
}
