// Native stand-ins for the ghost observers: same function names as the harness,
// implemented over /proc/self/smaps, /proc/self/status and the LD_PRELOAD interposer.
#![allow(unused, dead_code, unused_macros, static_mut_refs)]
#![feature(allocator_api)]
use dryoc::protected::*;
use dryoc::types::*;
use std::io::Read;

const PAGE: usize = 4096;
static mut LAST_P: usize = 0;
static mut LAST_LEN: usize = 0;
static mut MISMATCHES: i32 = 0;

macro_rules! wit { ($a:ident, $b:expr) => {{ let _ = $b; }}; }
static W_0: u8 = 0; static W_1: u8 = 0;
mod kani { 
    #[macro_export] macro_rules! kcover { ($($t:tt)*) => {}; }
    pub fn assume(_c: bool) {}
}
macro_rules! kani_cover { ($($t:tt)*) => {}; }

fn mismatch(role: &str, detail: String) {
    println!("MISMATCH {} {}", role, detail);
    unsafe { MISMATCHES += 1; }
}

fn smaps() -> Vec<(usize, usize, String, bool)> {
    let mut s = String::new();
    std::fs::File::open("/proc/self/smaps").unwrap().read_to_string(&mut s).unwrap();
    let mut out = Vec::new();
    let mut cur: Option<(usize, usize, String)> = None;
    for line in s.lines() {
        let first = line.split_whitespace().next().unwrap_or("");
        if first.contains('-') && !first.ends_with(':') {
            let mut it = first.split('-');
            let a = usize::from_str_radix(it.next().unwrap(), 16).unwrap();
            let b = usize::from_str_radix(it.next().unwrap(), 16).unwrap();
            let perms = line.split_whitespace().nth(1).unwrap().to_string();
            cur = Some((a, b, perms));
        } else if line.starts_with("VmFlags:") {
            if let Some((a, b, p)) = cur.take() {
                let locked = line.split_whitespace().any(|f| f == "lo");
                out.push((a, b, p, locked));
            }
        }
    }
    out
}

fn page_info(m: &[(usize, usize, String, bool)], addr: usize) -> Option<(String, bool)> {
    for (a, b, p, l) in m {
        if addr >= *a && addr < *b { return Some((p.clone(), *l)); }
    }
    None
}

fn pm_chk(p: *const u8, len: usize, prot: i32, locked: i32) {
    if len == 0 { return; }
    let p = p as usize;
    unsafe { LAST_P = p; LAST_LEN = len; }
    let m = smaps();
    if p % PAGE != 0 { mismatch("PM_REGION", format!("data pointer {:x} not page aligned", p)); return; }
    let want = match prot { 3 => "rw", 1 => "r-", _ => "--" };
    let first = p / PAGE; let last = (p + len - 1) / PAGE;
    for pg in first..=last {
        match page_info(&m, pg * PAGE) {
            Some((perm, lo)) => {
                if &perm[0..2] != want { mismatch("PM_RIGHTS", format!("page {} of region (len {}) has perms {} want {}", pg - first, len, perm, want)); }
                if lo != (locked == 1) { mismatch("PM_LOCK", format!("page {} locked={} want {}", pg - first, lo, locked)); }
            }
            None => mismatch("PM_REGION", format!("page {:x} unmapped", pg * PAGE)),
        }
    }
    match page_info(&m, (first - 1) * PAGE) { Some((perm, _)) if &perm[0..3] == "---" => {}, o => mismatch("PM_GUARD_FORE", format!("{:?}", o)) }
    // aft guard: the first PROT_NONE page after the data must exist within the block (scan a bounded window)
    let mut found = false;
    for k in 1..=6 { if let Some((perm, _)) = page_info(&m, (last + k) * PAGE) { if &perm[0..3] == "---" { found = true; break; } } }
    if !found { mismatch("PM_GUARD_AFT", String::from("no inaccessible page after the data")); }
}

fn dl(name: &str) -> Option<i32> {
    let c = std::ffi::CString::new(name).unwrap();
    let f = unsafe { libc::dlsym(libc::RTLD_DEFAULT, c.as_ptr()) };
    if f.is_null() { return None; }
    let f: extern "C" fn() -> i32 = unsafe { std::mem::transmute(f) };
    Some(f())
}

fn pm_final(check_wipe: bool, check_rest: bool) {
    if check_rest {
        let mut s = String::new();
        std::fs::File::open("/proc/self/status").unwrap().read_to_string(&mut s).unwrap();
        for l in s.lines() {
            if l.starts_with("VmLck:") {
                let kb: usize = l.split_whitespace().nth(1).unwrap().parse().unwrap();
                if kb != 0 { mismatch("PM_END_UNLOCKED", format!("VmLck {} kB after last drop", kb)); }
            }
        }
        let (p, len) = unsafe { (LAST_P, LAST_LEN) };
        if p != 0 {
            let m = smaps();
            let first = p / PAGE - 1; let last = (p + len - 1) / PAGE + 2;
            for pg in first..=last {
                if let Some((perm, _)) = page_info(&m, pg * PAGE) {
                    if &perm[0..2] != "rw" { mismatch("PM_END_RIGHTS", format!("page {:x} has perms {} after free", pg * PAGE, perm)); }
                }
            }
        }
        if let Some(n) = dl("verif_live_blocks") { if n != 0 { mismatch("PM_END_FREED", format!("{} blocks live", n)); } }
    }
    if check_wipe {
        match dl("verif_dirty_frees") {
            Some(n) => if n != 0 { mismatch("WIPE_BEFORE_FREE", format!("{} block(s) reached free() with non-zero bytes", n)); },
            None => println!("NOTE interposer not loaded"),
        }
    }
}

unsafe fn ghost_set_mlock_fail_from(_k: i32) -> i32 { 0 }
unsafe fn ghost_mlock_failed() -> i32 { dl("verif_mlock_failed").unwrap_or(0) }
