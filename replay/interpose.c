/* LD_PRELOAD interposer used ONLY to replay C15/C19 counterexamples natively
 * (the deciding step is the ghost-kernel model under CBMC).
 *  - remembers blocks handed out by posix_memalign,
 *  - free(): if the block is one of those, counts it as dirty when any byte is non-zero,
 *  - mlock(): fails with ENOMEM from the VERIF_MLOCK_FAIL_FROM-th call on (env, default never). */
#define _GNU_SOURCE
#include <dlfcn.h>
#include <errno.h>
#include <stddef.h>
#include <stdlib.h>
#include <string.h>

#define MAXB 256
static void *g_base[MAXB];
static size_t g_size[MAXB];
static int g_n = 0;
static int g_dirty = 0, g_frees = 0, g_mlock_calls = 0, g_mlock_failed = 0;

static int (*real_pm)(void **, size_t, size_t);
static void (*real_free)(void *);
static int (*real_mlock)(const void *, size_t);

int posix_memalign(void **out, size_t align, size_t size) {
  if (!real_pm) real_pm = dlsym(RTLD_NEXT, "posix_memalign");
  int r = real_pm(out, align, size);
  if (r == 0 && g_n < MAXB) {
    /* zero the fresh block so that non-zero bytes at free() were written by the program under test */
    memset(*out, 0, size);
    g_base[g_n] = *out; g_size[g_n] = size; g_n++;
  }
  return r;
}

void free(void *p) {
  if (!real_free) real_free = dlsym(RTLD_NEXT, "free");
  if (p) {
    for (int i = 0; i < g_n; i++) {
      if (g_base[i] == p) {
        const unsigned char *b = p;
        int dirty = 0;
        for (size_t j = 0; j < g_size[i]; j++) if (b[j]) { dirty = 1; break; }
        g_dirty += dirty; g_frees++;
        g_base[i] = g_base[g_n - 1]; g_size[i] = g_size[g_n - 1]; g_n--;
        break;
      }
    }
  }
  real_free(p);
}

int mlock(const void *addr, size_t len) {
  if (!real_mlock) real_mlock = dlsym(RTLD_NEXT, "mlock");
  const char *e = getenv("VERIF_MLOCK_FAIL_FROM");
  int k = g_mlock_calls++;
  if (e && *e && k >= atoi(e)) { g_mlock_failed = 1; errno = ENOMEM; return -1; }
  return real_mlock(addr, len);
}

int verif_dirty_frees(void) { return g_dirty; }
int verif_tracked_frees(void) { return g_frees; }
int verif_live_blocks(void) { return g_n; }
int verif_mlock_failed(void) { return g_mlock_failed; }
