// Native confirmation step for C06 counterexamples: dryoc against libsodium over the solver's (signature, key, message)
// and over the families the property quantifies over (honest signatures in every mode, every single-bit mutation, the
// malleation family S + k*L, every encoding of every small-order point as public key and as commitment, mode cross-overs).
// Prints one MISMATCH line per disagreement and exits 1; "agree" and exit 0 otherwise.
extern crate libsodium_sys;
use curve25519_dalek::constants::{ED25519_BASEPOINT_POINT, EIGHT_TORSION};
use curve25519_dalek::scalar::Scalar;
use dryoc::classic::crypto_hash::crypto_hash_sha512;
use dryoc::classic::crypto_sign::*;

fn hx(b: &[u8]) -> String { b.iter().map(|x| format!("{:02x}", x)).collect() }
fn so_verify(sig: &[u8; 64], m: &[u8], pk: &[u8; 32]) -> bool {
    unsafe { libsodium_sys::crypto_sign_verify_detached(sig.as_ptr(), m.as_ptr(), m.len() as u64, pk.as_ptr()) == 0 }
}
fn so_verify_ph(sig: &[u8; 64], m: &[u8], pk: &[u8; 32]) -> bool {
    unsafe {
        let mut st: libsodium_sys::crypto_sign_state = std::mem::zeroed();
        libsodium_sys::crypto_sign_init(&mut st);
        libsodium_sys::crypto_sign_update(&mut st, m.as_ptr(), m.len() as u64);
        libsodium_sys::crypto_sign_final_verify(&mut st, sig.as_ptr() as *mut u8, pk.as_ptr()) == 0
    }
}
fn dr_verify_ph(sig: &[u8; 64], m: &[u8], pk: &[u8; 32]) -> bool {
    let mut st = crypto_sign_init();
    crypto_sign_update(&mut st, &m[..m.len() / 2]);
    crypto_sign_update(&mut st, &m[m.len() / 2..]);
    crypto_sign_final_verify(st, sig, pk).is_ok()
}
fn check(label: &str, sig: &[u8; 64], m: &[u8], pk: &[u8; 32], bad: &mut u32) {
    let d = crypto_sign_verify_detached(sig, m, pk).is_ok();
    let s = so_verify(sig, m, pk);
    if d != s {
        if *bad < 12 { println!("MISMATCH {} verify: dryoc={} libsodium={} sig={} pk={} msg={}", label, d, s, hx(sig), hx(pk), hx(m)); }
        *bad += 1;
    }
    // combined form
    let mut sm = sig.to_vec(); sm.extend_from_slice(m);
    let mut out = vec![0u8; m.len()];
    let d2 = crypto_sign_open(&mut out, &sm, pk).is_ok();
    if d2 != s {
        if *bad < 12 { println!("MISMATCH {} open: dryoc={} libsodium={} sig={} pk={} msg={}", label, d2, s, hx(sig), hx(pk), hx(m)); }
        *bad += 1;
    }
}
fn h512(parts: &[&[u8]]) -> [u8; 64] { let mut v = Vec::new(); for p in parts { v.extend_from_slice(p); } let mut o = [0u8; 64]; crypto_hash_sha512(&mut o, &v); o }
const L: [u8; 32] = [0xed,0xd3,0xf5,0x5c,0x1a,0x63,0x12,0x58,0xd6,0x9c,0xf7,0xa2,0xde,0xf9,0xde,0x14,0,0,0,0,0,0,0,0,0,0,0,0,0,0,0,0x10];

fn main() {
    let mut bad = 0u32;
    // 0. the solver's witness
    let wsig: [u8; 64] = WSIG; let wpk: [u8; 32] = WPK; let wmsg: Vec<u8> = vec!WMSG;
    check("witness", &wsig, &wmsg, &wpk, &mut bad);
    if dr_verify_ph(&wsig, &wmsg, &wpk) != so_verify_ph(&wsig, &wmsg, &wpk) { println!("MISMATCH witness ph verify sig={} pk={} msg={}", hx(&wsig), hx(&wpk), hx(&wmsg)); bad += 1; }
    let wseed: [u8; 32] = WSEED;
    // 1. signing equality in every mode, honest signatures verify
    for t in 0..48u32 {
        let seed: [u8; 32] = if t == 0 { wseed } else { let h = h512(&[b"seed", &t.to_le_bytes()]); let mut s = [0u8; 32]; s.copy_from_slice(&h[..32]); s };
        let (pk, sk) = crypto_sign_seed_keypair(&seed);
        let mut spk = [0u8; 32]; let mut ssk = [0u8; 64];
        unsafe { libsodium_sys::crypto_sign_seed_keypair(spk.as_mut_ptr(), ssk.as_mut_ptr(), seed.as_ptr()); }
        if pk != spk || sk != ssk { println!("MISMATCH keypair from seed {}", hx(&seed)); bad += 1; }
        let msg: Vec<u8> = if t == 0 { wmsg.clone() } else { h512(&[b"msg", &t.to_le_bytes()]).iter().cycle().take(((t * 7) % 150) as usize).cloned().collect() };
        let mut sig = [0u8; 64]; let mut ssig = [0u8; 64];
        crypto_sign_detached(&mut sig, &msg, &sk).unwrap();
        unsafe { libsodium_sys::crypto_sign_detached(ssig.as_mut_ptr(), std::ptr::null_mut(), msg.as_ptr(), msg.len() as u64, ssk.as_ptr()); }
        if sig != ssig { println!("MISMATCH detached signature seed={} msg={} dryoc={} libsodium={}", hx(&seed), hx(&msg), hx(&sig), hx(&ssig)); bad += 1; }
        let mut sm = vec![0u8; 64 + msg.len()];
        crypto_sign(&mut sm, &msg, &sk).unwrap();
        if sm[..64] != ssig[..] || sm[64..] != msg[..] { println!("MISMATCH combined signature seed={} msg={}", hx(&seed), hx(&msg)); bad += 1; }
        let mut st = crypto_sign_init();
        crypto_sign_update(&mut st, &msg[..msg.len() / 3]); crypto_sign_update(&mut st, &msg[msg.len() / 3..]);
        let mut psig = [0u8; 64]; let mut spsig = [0u8; 64];
        crypto_sign_final_create(st, &mut psig, &sk).unwrap();
        unsafe {
            let mut sst: libsodium_sys::crypto_sign_state = std::mem::zeroed();
            libsodium_sys::crypto_sign_init(&mut sst);
            libsodium_sys::crypto_sign_update(&mut sst, msg.as_ptr(), msg.len() as u64);
            libsodium_sys::crypto_sign_final_create(&mut sst, spsig.as_mut_ptr(), std::ptr::null_mut(), ssk.as_ptr());
        }
        if psig != spsig { println!("MISMATCH pre-hashed signature seed={} msg={}", hx(&seed), hx(&msg)); bad += 1; }
        check("honest", &ssig, &msg, &spk, &mut bad);
        if !dr_verify_ph(&spsig, &msg, &spk) { println!("MISMATCH honest pre-hashed signature rejected seed={}", hx(&seed)); bad += 1; }
        // 5. mode cross-overs
        if dr_verify_ph(&ssig, &msg, &spk) != so_verify_ph(&ssig, &msg, &spk) { println!("MISMATCH pure signature under pre-hashed verification seed={}", hx(&seed)); bad += 1; }
        check("ph-sig-under-pure", &spsig, &msg, &spk, &mut bad);
        // 2. every single-bit mutation (a few messages)
        if t < 3 {
            for b in 0..512 { let mut s2 = ssig; s2[b / 8] ^= 1 << (b % 8); check("sigbit", &s2, &msg, &spk, &mut bad); }
            for b in 0..256 { let mut p2 = spk; p2[b / 8] ^= 1 << (b % 8); check("pkbit", &ssig, &msg, &p2, &mut bad); }
            for b in 0..(8 * msg.len()) { let mut m2 = msg.clone(); m2[b / 8] ^= 1 << (b % 8); check("msgbit", &ssig, &m2, &spk, &mut bad); }
        }
    }
    // 3. malleation family S + k*L
    for t in 0..400u32 {
        let h = h512(&[b"mal", &t.to_le_bytes()]); let mut seed = [0u8; 32]; seed.copy_from_slice(&h[..32]);
        let (pk, sk) = crypto_sign_seed_keypair(&seed);
        let msg = &h[32..32 + (t % 30) as usize];
        let mut sig = [0u8; 64];
        crypto_sign_detached(&mut sig, msg, &sk).unwrap();
        let mut cur = sig;
        for _k in 1..16 {
            let mut carry = 0u16;
            for i in 0..32 { let v = cur[32 + i] as u16 + L[i] as u16 + carry; cur[32 + i] = v as u8; carry = v >> 8; }
            if carry != 0 { break; }
            check("S+kL", &cur, msg, &pk, &mut bad);
        }
    }
    // 4. every encoding of the small-order points
    let mut enc: Vec<[u8; 32]> = EIGHT_TORSION.iter().map(|p| p.compress().to_bytes()).collect();
    let mut e = [0u8; 32]; e[0] = 1; e[31] = 0x80; enc.push(e);                                   // y = 1, sign bit (x = 0)
    let mut e = [0xffu8; 32]; e[0] = 0xec; enc.push(e);                                           // y = p - 1, sign bit
    for first in [0xedu8, 0xee] { for top in [0x7fu8, 0xff] { let mut e = [0xffu8; 32]; e[0] = first; e[31] = top; enc.push(e); } }   // y = p, p + 1
    let t8 = EIGHT_TORSION[1];
    for (ei, e) in enc.iter().enumerate() {
        for t in 0..64u32 {
            let h = h512(&[b"small", &(ei as u32).to_le_bytes(), &t.to_le_bytes()]);
            let mut w = [0u8; 64]; w.copy_from_slice(&h);
            let s = Scalar::from_bytes_mod_order_wide(&w);
            let msg = &h[..(t % 20) as usize];
            // as public key: sig = ([s]B, s) verifies whenever [k]A = 0
            let mut sig = [0u8; 64];
            sig[..32].copy_from_slice(&(ED25519_BASEPOINT_POINT * s).compress().to_bytes()); sig[32..].copy_from_slice(&s.to_bytes());
            check("small-order-pk", &sig, msg, e, &mut bad);
            // as commitment R: A = [a]B + T8, S = k a; the equation holds whenever -[k]T8 = R
            let a_pt = ED25519_BASEPOINT_POINT * s + t8;
            let apk = a_pt.compress().to_bytes();
            let k = Scalar::from_bytes_mod_order_wide(&h512(&[e, &apk, msg]));
            let mut sig2 = [0u8; 64];
            sig2[..32].copy_from_slice(e); sig2[32..].copy_from_slice(&(k * s).to_bytes());
            check("small-order-R", &sig2, msg, &apk, &mut bad);
        }
    }
    if bad > 0 { println!("{} mismatches", bad); std::process::exit(1); }
    println!("agree");
}
